#!/usr/bin/env python3
"""Turn a replay file of a circuit-program property (C01, C02, C09, C19: cases with "n" and "prog")
into a stand-alone Python script that rebuilds the circuit with plain lightworks calls and prints
what the check looked at - no explorer, no reference model, no /verif import.

    tools/replay_to_script.py replays/C02-xxxx.json > repro.py ; /venv/bin/python repro.py

The verdict itself is reproduced with `./check <ID> --replay <file>`; this script is the
human-readable form of the witness.
"""
import json
import os
import sys

sys.path.insert(0, os.path.join(os.path.dirname(os.path.abspath(__file__)), ".."))


def main():
    w = json.load(open(sys.argv[1]))
    case = w["case"]
    if "prog" not in case or "n" not in case:
        print("# this replay is not a circuit program; use ./check %s --replay %s" % (w["property"], sys.argv[1]))
        return
    seed = case.get("seed", 0)
    out = ["# stand-alone reproduction of %s (%s)" % (os.path.basename(sys.argv[1]), w["kind"]),
           "# detail reported by the check: %s" % json.dumps(w.get("detail"))[:300],
           "import numpy as np", "import lightworks as lw", "np.set_printoptions(precision=4, suppress=True, linewidth=160)", ""]
    # generic values are regenerated exactly as the harness does (seed-dependent), then inlined
    from mc.circuit_ops import Env
    from mc import kernel
    env = Env(seed)
    out.append("def haar(n, seed):")
    out.append("    rng = np.random.default_rng([seed, n, 77])")
    out.append("    z = (rng.normal(size=(n, n)) + 1j * rng.normal(size=(n, n))) / np.sqrt(2)")
    out.append("    q, r = np.linalg.qr(z); d = np.diag(r); return q * (d / np.abs(d))")
    out.append("")
    subs_needed = {op[1] for op in case["prog"] if op[0] == "add"}
    if subs_needed:
        out.append("def make_sub(name):")
        out.append("    # sub-circuit library of the check (mc/props/c02.py), written out for the shapes used here")
        body = {
            "bs2": "c = lw.Circuit(2); c.bs(0, reflectivity=%r)" % env.R[1],
            "u3": "c = lw.Unitary(haar(3, %d))" % (seed + 100 + 0),
            "h3mid": "c = lw.Unitary(haar(3, %d)); c.herald(1, 1)" % (seed + 100 + 1),
            "h3io": "c = lw.Unitary(haar(3, %d)); c.herald(1, 0, 2)" % (seed + 100 + 4),
            "h4desc": "c = lw.Unitary(haar(4, %d)); c.herald(1, 3, 0); c.herald(0, 1, 2)" % (seed + 100 + 2),
            "h4two": "c = lw.Unitary(haar(4, %d)); c.herald(2, 2, 1); c.herald(1, 1, 3)" % (seed + 100 + 3),
            "h2zero": "c = lw.Unitary(haar(3, %d)); c.herald(0, 2, 0)" % (seed + 100 + 5),
            "lossy": "c = lw.Circuit(3); c.bs(0, reflectivity=%r); c.loss(1, %r); c.bs(1, reflectivity=%r, convention='H'); c.herald(1, 0, 1)"
                     % (env.R[1], env.L[1], env.R2),
            "nest": "c = lw.Circuit(3); c.add(make_sub('h3mid'), 1); c.bs(0, 2, reflectivity=%r); c.herald(1, 2, 0)" % env.R2,
            "grp": "c = lw.Circuit(3); c.add(make_sub('bs2'), 1, group=True); c.add(make_sub('h3io'), 0); c.ps(2, %r)" % env.PH[0],
            "h5three": "c = lw.Unitary(haar(5, %d)); c.herald(1, 1, 1); c.herald(0, 4, 2); c.herald(1, 3, 4)" % (seed + 555),
            "grpplain": "c = lw.Circuit(3); c.add(make_sub('bs2'), 1, group=True); c.ps(0, %r); c.barrier([1, 2])" % env.PH[1],
            "h2all": "c = lw.Circuit(2); c.bs(0, reflectivity=%r); c.herald(1, 0); c.herald(0, 1)" % env.R[1],
            "empty2": "c = lw.Circuit(2)",
            "bar2": "c = lw.Circuit(2); c.bs(0, reflectivity=%r); c.barrier([0, 1]); c.ps(1, %r)" % (env.R2, env.PH[2]),
            "h3swapend": "c = lw.Circuit(3); c.bs(0, reflectivity=%r); c.bs(1, reflectivity=%r, convention='H'); "
                         "c.mode_swaps({0: 1, 1: 2, 2: 0}); c.herald(1, 0, 1)" % (env.R[1], env.R2),
        }
        need = set(subs_needed)
        if "nest" in need: need.add("h3mid")
        if "grp" in need: need |= {"bs2", "h3io"}
        if "grpplain" in need: need.add("bs2")
        for nm in sorted(need):
            if nm.startswith("sys:"):
                _, T, pos = nm.split(":")
                T = int(T); pos = [int(x) for x in pos.split(",")] if pos else []
                sd = seed + 1000 + 17 * T + sum((i + 1) * (q + 1) for i, q in enumerate(pos))
                line = "c = lw.Unitary(haar(%d, %d))" % (T, sd)
                for i, q in enumerate(pos):
                    line += "; c.herald(%d, %d, %d)" % ((1, 0, 1)[i % 3], q, q)
                out.append("    if name == %r:\n        %s; return c" % (nm, line))
            elif nm in body:
                out.append("    if name == %r:\n        %s; return c" % (nm, body[nm]))
        out.append("")
    out.append("c = lw.Circuit(%d)" % case["n"])
    for op in case["prog"]:
        k = op[0]
        call = None
        if k == "bs":
            if len(op) == 3:
                call = "c.bs(%d, %d, reflectivity=%r)" % (op[1], op[2], env.R2)
            else:
                call = "c.bs(%r, %r, reflectivity=%r, convention=%r, loss=%r)" % (op[1], op[2], op[3], op[4], op[5])
        elif k == "bsdef":
            call = "c.bs(%r)" % op[1] if op[2] is None else "c.bs(%r, reflectivity=%r)" % (op[1], op[2])
        elif k == "bsl":
            call = "c.bs(%d, %d, reflectivity=%r, loss=%r, convention='H')" % (op[1], op[2], env.R[1], env.L2)
        elif k == "ps":
            call = "c.ps(%r, %r)" % (op[1], env.PH[0]) if len(op) == 2 else "c.ps(%r, %r, loss=%r)" % (op[1], op[2], op[3])
        elif k == "psl":
            call = "c.ps(%d, %r, loss=%r)" % (op[1], env.PH[1], env.L[1])
        elif k == "loss":
            call = "c.loss(%r, %r)" % (op[1], op[2])
        elif k == "sw":
            call = "c.mode_swaps(%r)" % ({a: b for a, b in op[1]},)
        elif k == "uni":
            call = "c.add(lw.Unitary(haar(%d, %d)), %r, group=%r)" % (op[1], seed + 10 + op[1], op[2], op[3])
        elif k == "blk":
            call = ("_s = lw.Circuit(2); _s.bs(0, reflectivity=%r); _s.barrier([0, 1]); _s.ps(1, %r); "
                    "_s.bs(1, 0, reflectivity=%r, convention='H'); c.add(_s, %r, group=True, name='block')"
                    % (env.R2, env.PH[2], env.R[1], op[1]))
        elif k == "psnp":
            v = "np.%s(%r)" % (op[2], op[3])
            call = "c.ps(%r, %s)" % (op[1], "lw.Parameter(%s)" % v if len(op) > 4 and op[4] else v)
        elif k == "uni_bad":
            call = "c.add(lw.Unitary(np.array([[1, 0.2], [0, 1]], dtype=complex)), %r)" % op[2]
        elif k == "bar":
            call = "c.barrier()" if op[1] is None else "c.barrier(%r)" % (list(op[1]),)
        elif k == "plus_self":
            call = "c = c + c"
        elif k == "add":
            call = "c.add(make_sub(%r), %r, group=%r)" % (op[1], op[2], op[3])
        elif k == "her":
            call = "c.herald(%r, %r, %r)" % (op[1], op[2], op[3])
        else:
            call = "pass  # op %r: see mc/circuit_ops.py" % (op,)
        out.append("try:\n    %s\nexcept Exception as e:\n    print('refused:', %r, '->', type(e).__name__, e)" % (call, call))
    if "rewrites" in case:
        for rw in case["rewrites"]:
            m = {"unpack": "c.unpack_groups()", "compress": "c.compress_mode_swaps()", "remove_nonadj": "c.remove_non_adjacent_bs()",
                 "copy": "c = c.copy()", "freeze": "c = c.copy(freeze_parameters=True)"}[rw]
            out.append("U_before = c.U_full.copy(); " + m + "; print(%r, 'max |dU_full| =', "
                       "abs(c.U_full - U_before).max() if c.U_full.shape == U_before.shape else 'shape changed')" % rw)
    out += ["print('n_modes', c.n_modes, 'input_modes', c.input_modes, 'heralds', c.heralds)",
            "try:",
            "    U = c.U_full",
            "    print('U_full shape', U.shape, ' unitary:', np.allclose(U.conj().T @ U, np.eye(U.shape[0]), atol=1e-9))",
            "    print(c.U)",
            "except Exception as e:",
            "    print('does not compile:', type(e).__name__, e, '| cause:', repr(e.__cause__))"]
    print("\n".join(out))


if __name__ == "__main__":
    main()
