#!/usr/bin/env python3
"""Prints the markdown table of DESIGN §10 from seeded/*/meta.json."""
import glob, json, os
rows = []
for f in sorted(glob.glob(os.path.join(os.path.dirname(__file__), "..", "seeded", "*", "meta.json"))):
    m = json.load(open(f))
    t = m["ran"].get("test_suite_with_change", {}).get("summary", "?")
    kinds = []
    for c, v in m["ran"]["checks"].items():
        kinds += [k.replace("total ", "") for k in v["violation_kinds"]][:3]
    rows.append("| %s | %s | %s | %s | %s | %s |" % (
        m["id"], m["property"], ((m.get("what") or "") + " — needs: " + (m.get("needs_to_manifest") or "")).replace("|", "/"),
        "yes" if m["valid_seeded_change"] else "NO",
        ", ".join(m["caught_by"]) or "**missed**", "; ".join(kinds)[:110]))
print("| id | property | change (needs to manifest) | valid (demo fails, 663 tests pass) | caught by (tier in meta.json) | violation kinds reported |")
print("|---|---|---|---|---|---|")
print("\n".join(rows))
