CHECKS = [
 {"id": "C01", "engine": "E1", "ref": "DESIGN.md §3 C01",
  "technique": "bounded exhaustive enumeration of construction programs on the real Circuit vs a reference matrix product",
  "text": "Every construction program up to the stated depth over an alphabet with all ordered mode pairs, both "
          "conventions, boundary and generic parameter values, all permutations, unitary blocks, barriers and +, with "
          "refused calls interleaved, is executed on the real code; U, U_full shape, unitarity and leading block are "
          "compared with an independent matrix product. Bounded in depth/modes/values, exhaustive inside the bound.",
  "note": "finite value alphabet stands for the real ranges (seed-varied generic points); numpy linear algebra trusted"},
 {"id": "C02", "engine": "E1", "ref": "DESIGN.md §3 C02",
  "technique": "bounded exhaustive enumeration of parent programs x sub-circuit library; heralded amplitudes vs RefCircuit",
  "text": "Every parent program up to the depth bound over add(sub, m, group) for every library sub-circuit shape, every "
          "placement including illegal ones and both group flags, interleaved with beam splitters/swaps across ancillas "
          "and parent heralds, is executed on the real Circuit; legality, user-mode count, ancilla herald bookkeeping and "
          "all heralded amplitudes (scatter matrix up to permutation of equal-photon ancillas, witness = concrete differing "
          "amplitude) are compared with RefCircuit, which has no mode-shifting logic.",
  "note": "n<=5 user modes, depth<=3, sub library of 10 shapes (<=2 heralds, nesting depth 2-3); Haar blocks stand for all unitaries"},
]
_REASON = "check not built yet in this session (work in progress; not a claim that the technique cannot apply)"
NOT_YET = [(f"C{i:02d}", _REASON) for i in range(1, 20) if f"C{i:02d}" not in {c["id"] for c in CHECKS}]
