CHECKS = [
 {"id": "C01", "engine": "E1", "ref": "DESIGN.md §3 C01",
  "technique": "bounded exhaustive enumeration of construction programs on the real Circuit vs a reference matrix product",
  "text": "Every construction program up to the stated depth over an alphabet with all ordered mode pairs, both "
          "conventions, boundary and generic parameter values, all permutations, unitary blocks, barriers and +, with "
          "refused calls interleaved, is executed on the real code; U, U_full shape, unitarity and leading block are "
          "compared with an independent matrix product. Bounded in depth/modes/values, exhaustive inside the bound.",
  "note": "finite value alphabet stands for the real ranges (seed-varied generic points); numpy linear algebra trusted"},
 {"id": "C02", "engine": "E1", "ref": "DESIGN.md §3 C02",
  "technique": "bounded exhaustive enumeration of parent programs x sub-circuit library; heralded amplitudes vs RefCircuit",
  "text": "Every parent program up to the depth bound over add(sub, m, group) for every library sub-circuit shape, every "
          "placement including illegal ones and both group flags, interleaved with beam splitters/swaps across ancillas "
          "and parent heralds, is executed on the real Circuit; legality, user-mode count, ancilla herald bookkeeping and "
          "all heralded amplitudes (scatter matrix up to permutation of equal-photon ancillas, witness = concrete differing "
          "amplitude) are compared with RefCircuit, which has no mode-shifting logic.",
  "note": "n<=5 user modes, depth<=3, sub library of 10 shapes (<=2 heralds, nesting depth 2-3); Haar blocks stand for all unitaries"},
 {"id": "C03", "engine": "E1", "ref": "DESIGN.md §3 C03",
  "technique": "bounded exhaustive enumeration of circuits x Fock inputs/outputs x call shapes vs independent permanent",
  "text": "For every circuit of a generated family (n<=4, every loss placement incl. 0 and 1, every herald layout incl. "
          "in!=out, descending declaration, internal ancillas) and every Fock input/output up to 3 photons, in every call "
          "shape, the simulated amplitude equals an independently computed permanent/sqrt(factorials) on the circuit's "
          "U_full with heralds and vacuum loss modes placed; unit norm for lossless unheralded circuits; 11 invalid calls "
          "must each be refused.",
  "note": "n<=4 modes, <=3 visible photons (+<=2 herald photons); reference permanent cross-checked two ways at start-up"},
 {"id": "C04", "engine": "E1", "ref": "DESIGN.md §3 C04",
  "technique": "bounded exhaustive enumeration of circuits x Fock inputs x backends vs full-Fock-space reference distribution",
  "text": "Same family and inputs; each backend's distribution is compared entry by entry with |amp|^2 summed over the "
          "complete Fock basis incl. loss modes; non-negativity, photon bound, normalisation within the documented "
          "truncation and permanent==slos.",
  "note": "tolerance = folded-state count x 1e-9 (documented truncation) + 1e-11"},
 {"id": "C05", "engine": "E1", "ref": "DESIGN.md §3 C05",
  "technique": "bounded exhaustive enumeration of configurations; differential relations between the four simulation objects",
  "text": "For every family circuit x photon number x 6 post-selection objects x input sets x expected maps x detector "
          "mode the stated relations between Analyzer, Sampler, QuickSampler and Simulator are evaluated; every side is "
          "computed by the library and only combined by the harness; no object may refuse a circuit the others accept.",
  "note": "<=2 visible photons; predicates restricted to indexing/iteration (Analyzer/QuickSampler pass lists)"},
 {"id": "C06", "engine": "E1", "ref": "DESIGN.md §3 C06",
  "technique": "bounded exhaustive enumeration of a source-parameter grid x inputs x circuits x backends vs a generative reference",
  "text": "Every point of a grid over brightness, purity, indistinguishability and threshold (boundaries + generic points, "
          "denser than the polynomial degree) x bunched/gapped/vacuum/heralded inputs x lossless/lossy/heralded circuits "
          "x both backends: physical-class input statistics and the end-to-end output distribution are compared with a "
          "generative model written from the statement (per-photon outcomes; convolution of independent boson-sampling "
          "distributions per distinguishability group); plus thresholding rule, ideal and classical limits, g2, HOM.",
  "note": "<=4 requested photons; finite grid stands for the continuous ranges; a threshold removing every input is left out"},
 {"id": "C07", "engine": "E3", "ref": "DESIGN.md §3 C07",
  "technique": "exhaustive enumeration of every answer of every random source (choice-point DFS with exact weights) on the real sampling code",
  "text": "np.random.default_rng, detector random()/seed() and the samplers' random() are replaced by scripted oracles; "
          "all answer sequences are executed, giving the exact law the code implements for sample_N_inputs (N=1, N=2), "
          "sample_N_outputs (handed (vals,p) and counted result, N=1,2,7), sample() of both classes; compared with "
          "RefDetector o distribution followed by heralding, herald removal, post-selection, min_detection. Random "
          "draws may only be compared (any other use raises). Seed reproducibility with the real generators.",
  "note": "convergence of empirical frequencies is inferred from the exact law plus i.i.d. draws of numpy's Generator.choice / "
          "random.random (trusted), never observed; <=3 photons, <=4 modes"},
 {"id": "C08", "engine": "E2", "ref": "DESIGN.md §3 C08",
  "technique": "explicit-state BFS over the real API on a pool of live objects; invariant on every transition",
  "text": "Breadth-first search from a pool {parent, plain sub, heralded sub, parent already holding the heralded sub, copy "
          "slot, state}; each transition calls the real API (add in every placement incl. ancilla strictly inside the span, "
          "+, edits of subs after use, copy/freeze/rewrites, 8 observers, 17 calls that must be refused); states are "
          "deduplicated on complete fingerprints (observables, hidden ancilla lists, deep spec structure); on every "
          "transition every object except the receiver - and the receiver too for a refused call - must be unchanged. "
          "Scripted converter/tomography scenarios fingerprint every shared module-level gate instance.",
  "note": "depth 2 (quick) / 3 (thorough) - the space does not close (edits grow circuits); Parameter sharing is by design and outside the fingerprint"},
 {"id": "C09", "engine": "E1", "ref": "DESIGN.md §3 C09",
  "technique": "bounded exhaustive enumeration of constructible circuits x rewrite sequences; differential against an untouched twin",
  "text": "Every program up to the depth bound over a rich alphabet (heralded/plain/grouped/lossy subs, reversed and non-adjacent "
          "beam splitters, loss, 3-cycles, unitary blocks, barriers, heralds, Parameters) x every sequence of the five "
          "rewrites up to the length bound; after each step U_full, heralds and input size equal an untouched twin, the "
          "structural post-conditions hold, and editing any produced object leaves every other one's fingerprint unchanged.",
  "note": "n=4, depth 2/3, rewrite length 2/3; construction legality taken from the implementation (decided in C01/C02)"},
]
_REASON = "check not built yet in this session (work in progress; not a claim that the technique cannot apply)"
NOT_YET = [(f"C{i:02d}", _REASON) for i in range(1, 20) if f"C{i:02d}" not in {c["id"] for c in CHECKS}]
