CHECKS = [
 {"id": "C01", "engine": "E1", "ref": "DESIGN.md §3 C01",
  "technique": "bounded exhaustive enumeration of construction programs on the real Circuit vs a reference matrix product",
  "text": "Every construction program up to the stated depth over an alphabet with all ordered mode pairs, both "
          "conventions, boundary and generic parameter values, all permutations, unitary blocks, barriers and +, with "
          "refused calls interleaved, is executed on the real code; U, U_full shape, unitarity and leading block are "
          "compared with an independent matrix product. Bounded in depth/modes/values, exhaustive inside the bound.",
  "note": "finite value alphabet stands for the real ranges (seed-varied generic points); numpy linear algebra trusted"},
 {"id": "C02", "engine": "E1", "ref": "DESIGN.md §3 C02",
  "technique": "bounded exhaustive enumeration of parent programs x sub-circuit library; heralded amplitudes vs RefCircuit",
  "text": "Every parent program up to the depth bound over add(sub, m, group) for every library sub-circuit shape, every "
          "placement including illegal ones and both group flags, interleaved with beam splitters/swaps across ancillas "
          "and parent heralds, is executed on the real Circuit; legality, user-mode count, ancilla herald bookkeeping and "
          "all heralded amplitudes (scatter matrix up to permutation of equal-photon ancillas, witness = concrete differing "
          "amplitude) are compared with RefCircuit, which has no mode-shifting logic.",
  "note": "n<=5 user modes, depth<=3; named library of 11 shapes + systematic family (every set of <=3 herald positions on 3-5 modes) in pairs/triples of additions; Haar blocks stand for all unitaries"},
 {"id": "C03", "engine": "E1", "ref": "DESIGN.md §3 C03",
  "technique": "bounded exhaustive enumeration of circuits x Fock inputs/outputs x call shapes vs independent permanent",
  "text": "For every circuit of a generated family (n<=4, every loss placement incl. 0 and 1, every herald layout incl. "
          "in!=out, descending declaration, internal ancillas) and every Fock input/output up to 3 photons, in every call "
          "shape, the simulated amplitude equals an independently computed permanent/sqrt(factorials) on the circuit's "
          "U_full with heralds and vacuum loss modes placed; unit norm for lossless unheralded circuits; 11 invalid calls "
          "must each be refused.",
  "note": "n<=4 (5 thorough) modes, <=3 (5) visible photons; also a Simulator created before the circuit is built and one reused across tiny parameter nudges; reference permanent cross-checked at start-up"},
 {"id": "C04", "engine": "E1", "ref": "DESIGN.md §3 C04",
  "technique": "bounded exhaustive enumeration of circuits x Fock inputs x backends vs full-Fock-space reference distribution",
  "text": "Same family and inputs; each backend's distribution is compared entry by entry with |amp|^2 summed over the "
          "complete Fock basis incl. loss modes; non-negativity, photon bound, normalisation within the documented "
          "truncation and permanent==slos.",
  "note": "tolerance = folded-state count x 1e-9 (documented truncation) + 1e-11"},
 {"id": "C05", "engine": "E1", "ref": "DESIGN.md §3 C05",
  "technique": "bounded exhaustive enumeration of configurations; differential relations between the four simulation objects",
  "text": "For every family circuit x photon number x 6 post-selection objects x input sets x expected maps x detector "
          "mode the stated relations between Analyzer, Sampler, QuickSampler and Simulator are evaluated; every side is "
          "computed by the library and only combined by the harness; no object may refuse a circuit the others accept.",
  "note": "<=2 visible photons; rule sets evaluated by the harness from their tuples (not by the library); predicates incl. the State API, truthy answers; expected maps incl. lists, repeated / alien states and a truth table in another order than the inputs"},
 {"id": "C06", "engine": "E1", "ref": "DESIGN.md §3 C06",
  "technique": "bounded exhaustive enumeration of a source-parameter grid x inputs x circuits x backends vs a generative reference",
  "text": "Every point of a grid over brightness, purity, indistinguishability and threshold (boundaries + generic points, "
          "denser than the polynomial degree) x bunched/gapped/vacuum/heralded inputs x lossless/lossy/heralded circuits "
          "x both backends: physical-class input statistics and the end-to-end output distribution are compared with a "
          "generative model written from the statement (per-photon outcomes; convolution of independent boson-sampling "
          "distributions per distinguishability group); plus thresholding rule, ideal and classical limits, g2, HOM.",
  "note": "<=4 requested photons; finite grid stands for the continuous ranges; a threshold removing every input is left out"},
 {"id": "C07", "engine": "E3", "ref": "DESIGN.md §3 C07",
  "technique": "exhaustive enumeration of every answer of every random source (choice-point DFS with exact weights) on the real sampling code",
  "text": "np.random.default_rng, detector random()/seed() and the samplers' random() are replaced by scripted oracles; "
          "all answer sequences are executed, giving the exact law the code implements for sample_N_inputs (N=1, N=2), "
          "sample_N_outputs (handed (vals,p) and counted result, N=1,2,7), sample() of both classes; compared with "
          "RefDetector o distribution followed by heralding, herald removal, post-selection, min_detection. Random "
          "draws may only be compared (any other use raises). Seed reproducibility with the real generators.",
  "note": "convergence of empirical frequencies is inferred from the exact law plus i.i.d. draws of numpy's Generator.choice / "
          "random.random (trusted), never observed; <=3 photons, <=4 modes; histories of in-place detector edits to depth 3-4"},
 {"id": "C08", "engine": "E2", "ref": "DESIGN.md §3 C08",
  "technique": "explicit-state BFS over the real API on a pool of live objects; invariant on every transition",
  "text": "Breadth-first search from a pool {parent, plain sub, heralded sub, parent already holding the heralded sub, copy "
          "slot, state}; each transition calls the real API (add in every placement incl. ancilla strictly inside the span, "
          "+, edits of subs after use, copy/freeze/rewrites, 8 observers, 17 calls that must be refused); states are "
          "deduplicated on complete fingerprints (observables, hidden ancilla lists, deep spec structure); on every "
          "transition every object except the receiver - and the receiver too for a refused call - must be unchanged. "
          "Scripted converter/tomography scenarios fingerprint every shared module-level gate instance.",
  "note": "depth 2 (quick) / 3 (thorough) - the space does not close (edits grow circuits); Parameter sharing is by design and outside the fingerprint"},
 {"id": "C09", "engine": "E1", "ref": "DESIGN.md §3 C09",
  "technique": "bounded exhaustive enumeration of constructible circuits x rewrite sequences; differential against an untouched twin",
  "text": "Every program up to the depth bound over a rich alphabet (heralded/plain/grouped/lossy subs, reversed and non-adjacent "
          "beam splitters, loss, 3-cycles, unitary blocks, barriers, heralds, Parameters) x every sequence of the five "
          "rewrites up to the length bound; after each step U_full, heralds and input size equal an untouched twin, the "
          "structural post-conditions hold, and editing any produced object leaves every other one's fingerprint unchanged.",
  "note": "n=4, depth 2/3, rewrite length 2/3, plus a swap-focused stage (5 modes, depth 4/5); construction legality taken from the implementation (decided in C01/C02)"},
 {"id": "C10", "engine": "E2", "ref": "DESIGN.md §3 C10",
  "technique": "explicit-state search: Parameter automaton to closure; BFS over parameter updates x circuit templates vs RefCircuit",
  "text": "(A) the Parameter automaton over a finite value/bound alphabet (incl. non-numeric and rejected updates), directly and "
          "through a ParameterDict, is explored to closure: bounds invariant, rejected updates change nothing, documented "
          "exception types. (B) BFS over interleavings of value/bound updates with construction of 12 placement templates, "
          "copy and freeze; after every transition every live circuit's U equals RefCircuit at the current values or raises "
          "CircuitCompilationError iff a value is invalid for its slot; frozen copies keep their values and list no parameters.",
  "note": "part B to depth 4 (quick) / 6 (thorough) over 12 placement templates incl. in-place rewrites, at most two live circuits at a time; every state expanded with and without U / get_all_params() read after each step of its history; state key = parameter state + dictionary view + component structure of each circuit; NaN only as a phase"},
 {"id": "C11", "engine": "E2+E3", "ref": "DESIGN.md §3 C11",
  "technique": "explicit-state BFS over reconfiguration histories of long-lived objects with complete vars() fingerprints; differential oracle vs fresh object; sampling laws via choice-point enumeration",
  "text": "BFS over attribute assignments, in-place mutations of circuit/parameters/source, reads and sampling calls on a "
          "long-lived Sampler, QuickSampler and Analyzer; states are the complete vars() of the object; in every state the "
          "distribution, the exact laws of sample()/sample_N_inputs/sample_N_outputs (all answers of the owned random "
          "sources enumerated) and analysis results must equal those of a freshly built object in the same configuration.",
  "note": "quick: depth-bounded; thorough: runs to closure where the alphabet is finite (reported per object in the evidence)"},
 {"id": "C12", "engine": "E1", "ref": "DESIGN.md §3 C12",
  "technique": "bounded exhaustive enumeration of qiskit gate sequences; amplitude-level comparison with qiskit Operator",
  "text": "Every sequence up to the length bound over all ordered qubit tuples of cx, cz, swap, ccx, ccz on 2-4 qubits, "
          "decorated with all 13 single-qubit gates, both allow_post_selection values: the converter refuses, or every "
          "accepted amplitude of the converted circuit is one scalar times the Operator column and nothing accepted lies "
          "outside the qubit subspace.",
  "note": "sequence length <=3 (n=2), <=2 (n=3), 1 (n=4) quick; 4/3/2 thorough; decorated with single-qubit gates on the gate's qubits / on every qubit / not at all; two registers; rotation gates at all multiples of pi/4; 10 s termination guard per conversion; qiskit Operator trusted"},
 {"id": "C13", "engine": "E1", "ref": "DESIGN.md §3 C13",
  "technique": "exhaustive enumeration of the finite gate library x angle alphabet x targets x swap tuples; amplitudes vs literal matrices",
  "text": "Every gate class, every target option, an angle alphabet with special and generic values, SWAP on every 4-tuple of "
          "distinct modes in range: amplitude matrix on the dual-rail basis over all heralds-satisfied outputs equals s x the "
          "literal matrix with the stated |s|^2; heralded gates have no amplitude outside the qubit subspace.",
  "note": "angles: finite alphabet; linearity covers superpositions"},
 {"id": "C14", "engine": "E1+E3", "ref": "DESIGN.md §3 C14",
  "technique": "exhaustive enumeration of a structured unitary alphabet x error-model configurations; scripted enumeration of the resampling loop",
  "text": "Every phased permutation matrix (n<=4), identity-like, block, DFT, Givens-with-zeros, near-degenerate and Haar "
          "matrices, with herald layouts, is mapped with the default error model: same U, adjacent bs/ps only, phases in "
          "[0,2pi), heralds equal. Every combination of Constant/TopHat/Gaussian per slot x circuits x map seeds: declared "
          "bounds, reproducibility, sub-unitarity. The Gaussian resampling loop is run on every scripted answer sequence with "
          "<=3 out-of-range answers; TopHat at the ends of its range.",
  "note": "'all seeds' = map seeds {0,1,2}; unitaries from a finite structured alphabet + seed-varied Haar; error-model histories {assign slot, map(seed)} to depth 3 against a fresh model"},
 {"id": "C15", "engine": "E1", "ref": "DESIGN.md §3 C15",
  "technique": "bounded exhaustive enumeration of base-circuit programs x inputs x callback orders; harness is the experiment callback",
  "text": "All products of <=2 gates from a 12-gate alphabet (1 qubit), entangling gates incl. heralded/post-selected x leading/"
          "trailing complex layers (2 qubits), GHZ/CCZ-type states (3 qubits): the callback checks it got exactly 3^n circuits, "
          "each base + documented basis change, answers with exact RefFock frequencies; rho must be Hermitian, trace one, equal "
          "to |psi><psi|, fidelity one, base unchanged; all 6 callback orders for one qubit and 18 for two are forced.",
  "note": "noise-free frequencies; <=3 qubits; callback orders all for n=1, slice for n=2; one object reused across an in-place edit of the base circuit"},
 {"id": "C16", "engine": "E1", "ref": "DESIGN.md §3 C16",
  "technique": "bounded exhaustive enumeration of gate programs; harness is the experiment callback; comparison with choi_from_unitary and the closed-form gate fidelity",
  "text": "Every product of <=2 gates of the 12-gate alphabet (1 qubit) and entanglers x 4x4 single-qubit layers (2 qubits): LI "
          "Choi == choi_from_unitary(V), MLE Choi positive/TP with fidelity >= 0.99, gate fidelity equals the closed form for 6 "
          "targets; V is the RefFock dual-rail unitary cross-checked against the literal product.",
  "note": "MLE on all 1-qubit processes and a fixed slice of 2-qubit ones (iterative solver, seconds each): fidelity >= 0.99, trace preservation to 1e-3, positivity to 1e-9; heralds placed directly on the base circuit; tomography objects reused across base-circuit edits and repeated fidelity queries"},
 {"id": "C17", "engine": "E1", "ref": "DESIGN.md §3 C17",
  "technique": "exhaustive enumeration of small result contents (ordered state selections x valuations x mappings)",
  "text": "Every ordered selection of <=2 inputs and <=3 outputs from the 10 Fock states over 2 modes (and a 3-mode set), with an "
          "injective fingerprint valuation and a degenerate one, real and complex: pair, nested and array indexing agree in the "
          "given order; both mappings x invert x applied once and twice equal the per-mode image with coinciding images added "
          "and conserve each input's total; amplitude results refuse mappings; SamplingResult round-trips every small count dict.",
  "note": "repeated states: equal rows for the mappings; with different values only pair == nested indexing is required"},
 {"id": "C18", "engine": "E1", "ref": "DESIGN.md §3 C18",
  "technique": "exhaustive enumeration of small states, label assignments, herald dictionaries in every key order",
  "text": "All occupation lists of length <=3 over {0,1,2}: all pairs and triples for the algebraic laws, all slices, blocked "
          "setters, independence of handed-out values; all label assignments of <=3 photons over 2 modes in every order; herald "
          "insert/remove round trip for every position set in every key insertion order; dB conversions; seeded random "
          "unitaries/permutations.",
  "note": "length <=3 quick / <=4 thorough; caller-retained constructor lists outside the alphabet"},
 {"id": "C19", "engine": "E1", "ref": "DESIGN.md §3 C19",
  "technique": "bounded exhaustive enumeration of constructible circuits x display options",
  "text": "Every program up to the depth bound over the rich construction alphabet x both back-ends x loss display x parameter "
          "values x labels returns a drawing; wrong label length / unknown type raise DisplayError; circuit fingerprint and "
          "parameter values unchanged.",
  "note": "n=4 (+ sizes 1,2,6), depth 2/3; matplotlib on every k-th option set for cost; labels incl. non-strings; swap dictionaries in any key order; phases at every multiple of pi/4 and as numpy scalars"},
]
_REASON = "check not built yet in this session (work in progress; not a claim that the technique cannot apply)"
NOT_YET = [(f"C{i:02d}", _REASON) for i in range(1, 20) if f"C{i:02d}" not in {c["id"] for c in CHECKS}]
