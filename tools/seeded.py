#!/usr/bin/env python3
"""Evaluate a seeded change: tools/seeded.py <id> <property> <patch> <demo> [--checks C01,C02] [--tier quick]

1. scratch worktree of /repo HEAD: demo passes; apply patch; demo fails; full test-suite passes.
2. run the named checks (default: the property's own) against that scratch tree (VERIF_REPO), evidence
   redirected to a scratch directory so /verif/evidence is untouched.
3. record /verif/seeded/<id>/{patch.diff, demo.py, meta.json}. The scratch worktree is removed.
"""
import argparse, json, os, shutil, subprocess, sys, time

ap = argparse.ArgumentParser()
ap.add_argument("id"); ap.add_argument("prop"); ap.add_argument("patch"); ap.add_argument("demo")
ap.add_argument("--checks", default=None); ap.add_argument("--tier", default="quick")
ap.add_argument("--needs", default=""); ap.add_argument("--what", default="")
ap.add_argument("--skip-tests", action="store_true")
a = ap.parse_args()
checks = (a.checks or a.prop).split(",")
wt = f"/tmp/ev_{a.id}"
out = f"/tmp/ev_{a.id}_out"
env = dict(os.environ, PYTHONPATH=wt, PYTHONDONTWRITEBYTECODE="1", MPLBACKEND="Agg")


def sh(cmd, **kw):
    return subprocess.run(cmd, shell=True, capture_output=True, text=True, **kw)


subprocess.run(f"git -C /repo worktree remove --force {wt}", shell=True, capture_output=True)
shutil.rmtree(out, ignore_errors=True)
r = sh(f"git -C /repo worktree add -q --detach {wt} HEAD")
assert r.returncode == 0, r.stderr
meta = {"id": a.id, "property": a.prop, "needs_to_manifest": a.needs, "what": a.what, "ran": {}}
try:
    shutil.copy(a.demo, f"{wt}/demo_seeded.py")
    r0 = sh(f"cd {wt} && /venv/bin/python demo_seeded.py", env=env)
    meta["ran"]["demo_without_change"] = {"exit": r0.returncode, "tail": r0.stdout.strip()[-200:]}
    r = sh(f"git -C {wt} apply {os.path.abspath(a.patch)}")
    if r.returncode:
        print("PATCH DOES NOT APPLY:", r.stderr); meta["ran"]["apply"] = r.stderr; sys.exit(2)
    r1 = sh(f"cd {wt} && /venv/bin/python demo_seeded.py", env=env)
    meta["ran"]["demo_with_change"] = {"exit": r1.returncode, "tail": r1.stdout.strip()[-300:]}
    if not a.skip_tests:
        t0 = time.time()
        rt = sh(f"cd {wt} && /venv/bin/python -m pytest -q -p no:cacheprovider --timeout=900 -x 2>&1 | tail -3", env=env)
        line = [l for l in rt.stdout.splitlines() if "passed" in l or "failed" in l or "error" in l]
        meta["ran"]["test_suite_with_change"] = {"summary": line[-1] if line else rt.stdout[-200:], "wall_s": round(time.time() - t0)}
    elif os.path.exists(f"/verif/seeded/{a.id}/meta.json") and open(f"/verif/seeded/{a.id}/patch.diff").read() == open(a.patch).read():
        old = json.load(open(f"/verif/seeded/{a.id}/meta.json"))
        if "test_suite_with_change" in old["ran"]:
            meta["ran"]["test_suite_with_change"] = old["ran"]["test_suite_with_change"]     # same patch, validated earlier
    meta["ran"]["checks"] = {}
    for c in checks:
        t0 = time.time()
        rc = sh(f"cd /verif && VERIF_REPO={wt} VERIF_OUT={out} ./check {c} --tier {a.tier}")
        lines = rc.stdout.strip().splitlines()
        summ = [l for l in lines if l.startswith(c + " tier")]
        kinds = [l.strip() for l in lines if l.strip().startswith("total ")]
        meta["ran"]["checks"][c] = {"exit": rc.returncode, "caught": rc.returncode == 1 and any("VIOLATION" in l for l in lines),
                                    "summary": summ[-1] if summ else (rc.stdout + rc.stderr)[-300:], "violation_kinds": kinds,
                                    "wall_s": round(time.time() - t0, 1), "tier": a.tier}
    valid = r0.returncode == 0 and r1.returncode != 0 and (a.skip_tests or " passed" in meta["ran"]["test_suite_with_change"]["summary"]
                                                            and "failed" not in meta["ran"]["test_suite_with_change"]["summary"])
    meta["valid_seeded_change"] = bool(valid)
    meta["caught_by"] = [c for c, v in meta["ran"]["checks"].items() if v["caught"]]
    d = f"/verif/seeded/{a.id}"
    os.makedirs(d, exist_ok=True)
    shutil.copy(a.patch, f"{d}/patch.diff"); shutil.copy(a.demo, f"{d}/demo.py")
    json.dump(meta, open(f"{d}/meta.json", "w"), indent=1)
    print(json.dumps({k: meta[k] for k in ("id", "property", "valid_seeded_change", "caught_by")}))
    for c, v in meta["ran"]["checks"].items():
        print(" ", c, v["summary"], v["violation_kinds"])
    print("  demo:", meta["ran"]["demo_without_change"]["exit"], meta["ran"]["demo_with_change"]["exit"],
          "tests:", meta["ran"].get("test_suite_with_change", {}).get("summary"))
finally:
    subprocess.run(f"git -C /repo worktree remove --force {wt}", shell=True, capture_output=True)
    shutil.rmtree(out, ignore_errors=True)
