#!/usr/bin/env python3
"""Fill 'what' / 'needs_to_manifest' of seeded/*/meta.json from seeded/descriptions.json."""
import glob, json, os
root = os.path.join(os.path.dirname(__file__), "..", "seeded")
desc = json.load(open(os.path.join(root, "descriptions.json")))
for f in glob.glob(os.path.join(root, "*", "meta.json")):
    m = json.load(open(f))
    if m["id"] in desc:
        m["what"], m["needs_to_manifest"] = desc[m["id"]]
        json.dump(m, open(f, "w"), indent=1)
