#!/usr/bin/env python3
"""Regenerates /verif/MANIFEST.json from the table below (kept valid at all times)."""
import json, os, sys
HERE = os.path.dirname(os.path.dirname(os.path.abspath(__file__)))
sys.path.insert(0, os.path.join(HERE, "tools"))
from manifest_table import CHECKS, NOT_YET  # noqa: E402

ENGINES = [
    {"name": "E1", "path": "mc/kernel.py", "kind_free_text":
     "stateless program-space explorer: every API call sequence (legal and refused calls) up to a "
     "depth/deviation bound, replayed from scratch on the real code next to a reference model",
     "serves_properties": [c["id"] for c in CHECKS if "E1" in c["engine"]]},
    {"name": "E2", "path": "mc/kernel.py", "kind_free_text":
     "explicit-state BFS over the real transition function with complete-state fingerprints; runs to "
     "closure where the alphabet is finite; differential oracle against a freshly built object",
     "serves_properties": [c["id"] for c in CHECKS if "E2" in c["engine"]]},
    {"name": "E3", "path": "mc/kernel.py", "kind_free_text":
     "choice-point enumerator: every call of an owned random source is a weighted branch; DFS over all "
     "answer sequences gives the exact law the sampling code implements",
     "serves_properties": [c["id"] for c in CHECKS if "E3" in c["engine"]]},
]
m = {
    "version": 1,
    "setup_cmd": "./setup.sh",
    "hooks": {"guard": "LIGHTWORKS_VERIF", "enable": "no source hooks are needed: every seam (random sources, set "
              "ordering, private state) is reached from the harness; ./check exports LIGHTWORKS_VERIF=1 for form only",
              "baseline_off_cmd": "cd /repo && /venv/bin/python -m pytest -ra -q -p no:cacheprovider --timeout=900 "
              "--continue-on-collection-errors", "source_commits": [], "add_only": True},
    "engines": ENGINES,
    "checks": [],
    "notes": "All checks are bounded exhaustive explorations of the implementation itself (no separate model, hence "
             "no model/implementation gap); see DESIGN.md. known_findings.json lists repaired defects (status fixed) "
             "and any recorded-but-unrepaired ones (status known).",
    "not_applicable": [{"property_id": p, "reason": r} for p, r in NOT_YET],
}
for c in CHECKS:
    m["checks"].append({
        "property_id": c["id"],
        "quick_cmd": f"./check {c['id']} --tier quick",
        "thorough_cmd": f"./check {c['id']} --tier thorough",
        "evidence_file": f"/verif/evidence/{c['id']}.json",
        "replay_cmd_template": f"./check {c['id']} --replay {{path}}",
        "engine": c["engine"],
        "level_claimed": {"category": "model_checking", "text": c["text"], "design_ref": c["ref"]},
        "level_note": c["note"],
        "technique": c["technique"],
    })
with open(os.path.join(HERE, "MANIFEST.json"), "w") as f:
    json.dump(m, f, indent=1)
print("MANIFEST.json:", len(m["checks"]), "checks,", len(m["not_applicable"]), "not claimed")
