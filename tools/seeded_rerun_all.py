#!/usr/bin/env python3
"""Re-evaluate every kept seeded change against the current checks (3 parallel streams, tests not re-run:
the patch is unchanged, the earlier test-suite result is carried over by tools/seeded.py)."""
import glob, json, os, shutil, subprocess, sys
from concurrent.futures import ThreadPoolExecutor
root = os.path.join(os.path.dirname(os.path.abspath(__file__)), "..", "seeded")
jobs = []
for f in sorted(glob.glob(os.path.join(root, "*", "meta.json"))):
    m = json.load(open(f)); d = os.path.dirname(f)
    shutil.copy(os.path.join(d, "patch.diff"), f"/tmp/rr_{m['id']}.diff"); shutil.copy(os.path.join(d, "demo.py"), f"/tmp/rr_{m['id']}.py")
    jobs.append((m["id"], m["property"], ",".join(m["ran"]["checks"].keys())))
def run(j):
    i, p, checks = j
    r = subprocess.run(["python3", os.path.join(root, "..", "tools", "seeded.py"), i, p, f"/tmp/rr_{i}.diff", f"/tmp/rr_{i}.py",
                        "--skip-tests", "--checks", checks], capture_output=True, text=True)
    line = [l for l in r.stdout.splitlines() if l.startswith("{")]
    os.remove(f"/tmp/rr_{i}.diff"); os.remove(f"/tmp/rr_{i}.py")
    return line[-1] if line else (i + " ERROR " + r.stdout[-300:] + r.stderr[-300:])
with ThreadPoolExecutor(int(sys.argv[1]) if len(sys.argv) > 1 else 3) as ex:
    for out in ex.map(run, jobs):
        print(out, flush=True)
