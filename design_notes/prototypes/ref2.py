"""Reference model v2: construction modes (incl. externally heralded) + internal ancillas."""
import numpy as np, itertools, math

class Ref:
    def __init__(self, n):
        self.c = n                    # construction (user addressable) modes
        self.anc = []                 # internal ancillas photon numbers; index c+k
        self.ext = []                 # external heralds (in_mode, out_mode, n) on construction modes
        self.M = np.eye(n, dtype=complex)
    @property
    def N(self): return self.c+len(self.anc)
    def apply(self, idx, mat):
        E = np.eye(self.N, dtype=complex); E[np.ix_(idx, idx)] = mat; self.M = E @ self.M
    def bs(self, a, b, r, conv="Rx"):
        t=math.acos(math.sqrt(r))
        m=np.array([[math.cos(t),1j*math.sin(t)],[1j*math.sin(t),math.cos(t)]]) if conv=="Rx" else np.array([[math.cos(t),math.sin(t)],[math.sin(t),-math.cos(t)]])
        self.apply([a,b], m)
    def ps(self, a, phi): self.apply([a], np.array([[np.exp(1j*phi)]]))
    def loss(self, a, l): self.apply([a], np.array([[math.sqrt(1-l)]]))
    def swaps(self, d):
        ks=sorted(d); P=np.zeros((len(ks),len(ks)))
        for k in ks: P[ks.index(d[k]), ks.index(k)] = 1
        self.apply(ks, P)
    def unitary(self, a, U): self.apply(list(range(a,a+U.shape[0])), U)
    def can_herald(self, i, o):
        return 0<=i<self.c and 0<=o<self.c and all(i!=e[0] for e in self.ext) and all(o!=e[1] for e in self.ext)
    def herald(self, n, i, o): self.ext.append((i,o,n))
    def vis_in(self): return [m for m in range(self.c) if all(m!=e[0] for e in self.ext)]
    def vis_out(self): return [m for m in range(self.c) if all(m!=e[1] for e in self.ext)]
    def as_sub(self):
        """canonical block: rows [vis_out..., ext outs..., anc], cols [vis_in..., ext ins..., anc]; ancilla photon list"""
        rows=self.vis_out()+[e[1] for e in self.ext]+list(range(self.c,self.N))
        cols=self.vis_in()+[e[0] for e in self.ext]+list(range(self.c,self.N))
        return self.M[np.ix_(rows,cols)], len(self.vis_in()), [e[2] for e in self.ext]+list(self.anc)
    def can_add(self, sub, m):
        return 0<=m and m+len(sub.vis_in())<=self.c
    def add(self, sub, m):
        S, v, anc = sub.as_sub()
        N0=self.N
        M=np.eye(N0+len(anc),dtype=complex); M[:N0,:N0]=self.M; self.M=M; self.anc+=anc
        self.apply(list(range(m,m+v))+list(range(N0,N0+len(anc))), S)
    def scatter(self):
        """amplitude-relevant data for the whole circuit seen from outside"""
        S,v,anc=self.as_sub(); return S,v,anc

def impl_scatter(c):
    U=c.U; h=c.heralds; hin,hout=h["input"],h["output"]; n=c.n_modes
    cols=[i for i in range(n) if i not in hin]+list(hin.keys())
    rows=[i for i in range(n) if i not in hout]+list(hout.keys())
    assert [hin[k] for k in hin]==[hout[k] for k in hout]
    return U[np.ix_(rows,cols)], n-len(hin), [hin[k] for k in hin]

def scatter_equal(A, B, tol=1e-9):
    (Ma,va,anca),(Mb,vb,ancb)=A,B
    if va!=vb or sorted(anca)!=sorted(ancb) or Ma.shape!=Mb.shape: return False
    ka=list(range(va))+[va+k for k,n in enumerate(anca) if n>0]
    na=[n for n in anca if n>0]
    kb0=[vb+k for k,n in enumerate(ancb) if n>0]; nb=[n for n in ancb if n>0]
    A_=Ma[np.ix_(ka,ka)]
    # try permutations of b's photon-carrying ancillas (rows and cols independently) matching photon numbers
    for pr in itertools.permutations(range(len(kb0))):
        if [nb[i] for i in pr]!=na: continue
        for pc in itertools.permutations(range(len(kb0))):
            if [nb[i] for i in pc]!=na: continue
            rows=list(range(vb))+[kb0[i] for i in pr]; cols=list(range(vb))+[kb0[i] for i in pc]
            if np.allclose(A_, Mb[np.ix_(rows,cols)], atol=tol): return True
    return False
