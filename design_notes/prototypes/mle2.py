import lightworks as lw, numpy as np, warnings, time
from lightworks.tomography.process_tomography_mle import MLETomographyAlgorithm, TOMO_INPUTS
from lightworks.tomography.mappings import RHO_MAPPING, PAULI_MAPPING
from lightworks.tomography.utils import _get_tomo_measurements, _combine_all, choi_from_unitary, process_fidelity
def data_for(V,n):
    d={}
    rhos=_combine_all(RHO_MAPPING,n); paulis=_combine_all(PAULI_MAPPING,n)
    for i in _combine_all(TOMO_INPUTS,n):
        rho = V@rhos[i]@V.conj().T
        for m in _get_tomo_measurements(n, remove_trivial=True):
            d[i,m] = np.real(np.trace(paulis[m]@rho))
    return d
CNOT=np.array([[1,0,0,0],[0,1,0,0],[0,0,0,1],[0,0,1,0]],complex)
H=np.array([[1,1],[1,-1]])/2**.5
for name,V,n in [("H",H,1),("CNOT",CNOT,2),("HI.CNOT",np.kron(H,np.eye(2))@CNOT,2)]:
    alg=MLETomographyAlgorithm(n)
    t0=time.time()
    with warnings.catch_warnings(record=True) as w:
        warnings.simplefilter("always")
        ch=alg.pgdb(data_for(V,n))
    ref=np.outer(V.T.flatten(),V.T.flatten().conj())
    ev=np.linalg.eigvalsh(ch)
    d=2**n
    pt=np.einsum(ch.reshape(d,d,d,d),[0,1,2,1])
    print(name, "t=%.2fs"%(time.time()-t0), "fid", process_fidelity(ch,ref), "mineig",ev.min(), "TPerr",abs(pt-np.eye(d)).max(), [str(x.message) for x in w][:2])
