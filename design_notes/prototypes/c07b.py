import numpy as np, collections, math
from unittest import mock
import lightworks as lw
from lightworks import emulator as emu
import lightworks.emulator.components.detector as detmod
import lightworks.emulator.simulation.sampler as sampmod
import lightworks.emulator.simulation.quick_sampler as qsmod
from c07proto import Oracle, explore, ref_detect
print(lw.__file__)
class Draw(float):
    """a uniform draw that may only be compared; comparisons decide the branch lazily"""
    def __new__(cls, o): 
        x=float.__new__(cls, 0.5); x.o=o; x.lo=0.0; x.hi=1.0; return x
    def _cmp(self, t, want_less):
        t=float(t)
        if t<=self.lo: less=False
        elif t>=self.hi: less=True
        else:
            w=[(t-self.lo)/(self.hi-self.lo),(self.hi-t)/(self.hi-self.lo)]
            k=self.o.choose(w,"draw<%g"%t); less=(k==0)
            if less: self.hi=t
            else: self.lo=t
        return less if want_less else not less
    def __lt__(self,t): return self._cmp(t,True)
    def __gt__(self,t): return self._cmp(t,False)   # P(U==t)=0
    def __le__(self,t): return self._cmp(t,True)
    def __ge__(self,t): return self._cmp(t,False)
    def _no(self,*a): raise AssertionError("random draw used outside a comparison")
    __add__=__radd__=__sub__=__mul__=__rmul__=__truediv__=__float__=__int__=__eq__=__hash__=_no
def law(fn, mods):
    def run(o):
        patches=[mock.patch.object(m,"random",lambda: Draw(o)) for m in mods]
        for p in patches: p.start()
        try: r=fn()
        finally:
            for p in patches: p.stop()
        return tuple(r.s)
    d=collections.defaultdict(float); n=0
    for w,out,tr in explore(run): d[out]+=w; n+=1
    return d,n
U=lw.random_unitary(3,seed=4); c=lw.Unitary(U); c.loss(1,0.3)
for det in [emu.Detector(), emu.Detector(efficiency=0.7), emu.Detector(p_dark=0.2,photon_counting=False), emu.Detector(efficiency=0.6,p_dark=0.1)]:
    s=emu.Sampler(c, lw.State([1,1,0]), detector=det)
    d,n=law(s.sample,[sampmod,detmod])
    ref=collections.defaultdict(float)
    pd=s.probability_distribution; tot=sum(pd.values())
    for st,p in pd.items():
        for o,q in ref_detect(st.s,det.efficiency,det.p_dark,det.photon_counting).items(): ref[o]+=p/tot*q
    keys=set(d)|set(ref)
    print(det, "paths",n,"w",round(sum(d.values()),12),"maxerr",max(abs(d.get(k,0)-ref.get(k,0)) for k in keys))
q=emu.QuickSampler(lw.Unitary(U), lw.State([1,1,0]), photon_counting=False)
q.probability_distribution
d,n=law(q.sample,[qsmod]); pd=q.probability_distribution
print("QS paths",n,max(abs(d.get(tuple(k.s),0)-v) for k,v in pd.items()), len(d)==len(pd))
