import lightworks as lw, numpy as np, traceback
from lightworks import emulator as emu
c = lw.qubit.CNOT_Heralded()
a = emu.Analyzer(c)
try:
    r = a.analyze(lw.State([1,0,1,0]))
    print(r.array, a.performance)
except Exception as e:
    traceback.print_exc()
# simple: 3-mode unitary with 1-photon herald
U = lw.random_unitary(3, seed=1)
c = lw.Unitary(U); c.herald(1, 1)
a = emu.Analyzer(c)
try:
    r = a.analyze(lw.State([1,0])); print(r.array, r.outputs)
except Exception as e:
    traceback.print_exc()
# QuickSampler fresh sample
q = emu.QuickSampler(lw.Unitary(U), lw.State([1,0,0]))
try: print(q.sample())
except Exception as e: print("QS.sample fresh:", type(e).__name__, e)
q.probability_distribution
print(q.sample())
q.input_state = lw.State([0,0,2])
print([q.sample() for _ in range(5)], q.probability_distribution)
