import sys, itertools, collections, numpy as np
sys.argv=[sys.argv[0],"0"]
import lightworks as lw
import c02proto as C
from lightworks.sdk.circuit.components import Group, BeamSplitter
O=C.ops(4)+[("sw",{0:1,1:2,2:0}),("sw",{1:2,2:1}),("bs",0,2),("bs",3,1),("loss",1),("uni",1)]
def build(prog,n=4):
    P=lw.Circuit(n)
    for op in prog:
        try:
            if op[0]=="add":
                s,_=C.sub(op[1]); P.add(s,op[2],group=op[3])
            elif op[0]=="bs": P.bs(op[1],op[2],reflectivity=0.35, convention="H")
            elif op[0]=="ps": P.ps(op[1],0.9)
            elif op[0]=="sw": P.mode_swaps(op[1])
            elif op[0]=="her": P.herald(op[1],op[2],op[3])
            elif op[0]=="loss": P.loss(op[1],0.3)
            elif op[0]=="uni": P.add(lw.Unitary(lw.random_unitary(2,seed=3)),op[1])
        except (lw.ModeRangeError, ValueError): return None
    return P
def has_group(spec): return any(isinstance(s,Group) for s in spec)
def nonadj(spec):
    for s in spec:
        if isinstance(s,BeamSplitter) and abs(s.mode_1-s.mode_2)!=1: return True
        if isinstance(s,Group) and nonadj(s.circuit_spec): return True
    return False
res=collections.Counter(); ex={}
rewrites=["unpack","compress","nonadj","copy","freeze"]
def apply(c,r):
    if r=="unpack": c.unpack_groups(); return c
    if r=="compress": c.compress_mode_swaps(); return c
    if r=="nonadj": c.remove_non_adjacent_bs(); return c
    if r=="copy": return c.copy()
    if r=="freeze": return c.copy(freeze_parameters=True)
for d in (1,2):
    for prog in itertools.product(O,repeat=d):
        if d==3 and prog[0][0]=="add" and prog[0][1] not in ("h3mid","bs2"): continue
        P=build(prog)
        if P is None: continue
        try: U0=P.U_full; h0=P.heralds; im0=P.input_modes
        except Exception: res["uncompilable"]+=1; continue
        for rs in itertools.product(rewrites,repeat=2):
            c=P.copy(); n0=len(c._get_circuit_spec())
            for r in rs:
                nb=len(c._get_circuit_spec())
                c=apply(c,r)
                spec=c._get_circuit_spec()
                bad=None
                if r=="unpack" and has_group(spec): bad="group remains"
                if r=="nonadj" and nonadj(spec): bad="nonadj remains"
                if r=="compress" and len(spec)>nb: bad="grown"
                if c.U_full.shape!=U0.shape or not np.allclose(c.U_full,U0,atol=1e-10): bad="U changed"
                if c.heralds!=h0 or c.input_modes!=im0: bad="heralds changed"
                if bad:
                    res[(r,bad)]+=1; ex.setdefault((r,bad),(prog,rs)); break
            else: res["ok"]+=1
print(res)
for k,v in ex.items(): print(k,v)
