import lightworks as lw, numpy as np, itertools, collections, math
from lightworks.emulator.results import SimulationResult, SamplingResult
from lightworks.emulator.state import AnnotatedState
from lightworks.sdk.utils import add_heralds_to_state, remove_heralds_from_state
bad=collections.Counter()
# ---- C18 State
occ=[list(t) for L in range(0,4) for t in itertools.product([0,1,2],repeat=L)]
S=[lw.State(list(o)) for o in occ]
for a,b in itertools.product(range(len(S)),repeat=2):
    eq = S[a]==S[b]
    if eq != (occ[a]==occ[b]): bad["eq"]+=1
    if eq and hash(S[a])!=hash(S[b]): bad["hash"]+=1
    if (S[a]+S[b]).s != occ[a]+occ[b]: bad["add"]+=1
    if len(occ[a])==len(occ[b]):
        if S[a].merge(S[b]).s != [x+y for x,y in zip(occ[a],occ[b])]: bad["merge"]+=1
        if S[a].merge(S[b])!=S[b].merge(S[a]): bad["mergecomm"]+=1
    else:
        try: S[a].merge(S[b]); bad["merge-noraise"]+=1
        except ValueError: pass
for s,o in zip(S,occ):
    if s.n_photons!=sum(o) or s.n_modes!=len(o) or len(s)!=len(o) or list(s)!=o: bad["counts"]+=1
    x=s.s; x.append(9)
    if s.s!=o: bad["s-alias"]+=1
    for sl in itertools.product([None,-2,-1,0,1,2,3],[None,-2,-1,0,1,2,3],[None,1,2,-1]):
        r=s[slice(*sl)]
        if not isinstance(r,lw.State) or r.s!=o[slice(*sl)]: bad["slice"]+=1
    for setter in (lambda: setattr(s,"s",[1]), lambda: setattr(s,"n_modes",3), lambda: s.__setitem__(0,1)):
        try: setter(); bad["setter-noraise"]+=1
        except lw.StateError: pass
    if str(s)!="|"+",".join(map(str,o))+">" and o: bad["str"]+=1
print("state",dict(bad), "empty str:", repr(str(lw.State([]))))
# ---- heralds round trip
cnt=0
for L in range(0,4):
  for st in itertools.product([0,1,2],repeat=L):
    N=L
    for k in range(0,3):
        for pos in itertools.permutations(range(L+k),k):   # all key orders
            h={p:(i+1)%3 for i,p in enumerate(pos)}
            full=add_heralds_to_state(lw.State(list(st)),h)
            cnt+=1
            if len(full)!=L+k or any(full[p]!=n for p,n in h.items()): bad["her-add"]+=1
            back=remove_heralds_from_state(lw.State(full),list(h.keys()))
            if back!=list(st): bad["her-rt"]+=1
            full2=add_heralds_to_state(list(st),h)
            if full2!=full: bad["her-list"]+=1
print("heralds",cnt,dict(bad))
# ---- annotated
labs=[[],[0],[1],[0,0],[0,1],[1,0],[1,2],[2,1],[0,1,2],[2,0,1]]
for a,b in itertools.product(labs,repeat=2):
    x=AnnotatedState([list(a),list(b)])
    y=AnnotatedState([sorted(a),sorted(b)])
    if x!=y or hash(x)!=hash(y): bad["ann-order"]+=1
    if x.n_photons!=len(a)+len(b): bad["ann-n"]+=1
    g=x[0]; g.append(99)
    if x.n_photons!=len(a)+len(b): bad["ann-getitem-alias"]+=1
    z=x.s; z[0].append(5)
    if AnnotatedState([sorted(a),sorted(b)]).s != [sorted(a),sorted(b)]: bad["ann-s"]+=1
print("annot",dict(bad))
# ---- conversions
for db in [0,0.1,1,3,10,30]:
    d=lw.db_loss_to_decimal(db)
    if d<1 and abs(lw.decimal_to_db_loss(d)-db)>1e-9*max(1,db): bad["db"]+=1
    if lw.db_loss_to_decimal(-db)!=d: bad["dbsign"]+=1
for N in range(1,6):
    for seed in (0,1,2):
        U=lw.random_unitary(N,seed=seed); 
        if not np.allclose(U@U.conj().T,np.eye(N),atol=1e-10) or not np.array_equal(U,lw.random_unitary(N,seed=seed)): bad["ru"]+=1
        P=lw.random_permutation(N,seed=seed)
        if not (np.array_equal(P,lw.random_permutation(N,seed=seed)) and np.allclose(P.sum(0),1) and np.allclose(P.sum(1),1) and set(np.unique(P.real))<= {0,1}): bad["rp"]+=1
print("conv",dict(bad))
# ---- C17
states=[lw.State(list(s)) for L in (2,) for n in range(0,4) for s in itertools.product(range(4),repeat=L) if sum(s)==n]
cnt=0
for k_in in (1,2):
  for ins in itertools.permutations(states[:5],k_in):
    for k_out in (1,2,3):
      for outs in itertools.permutations(states,k_out):
        cnt+=1
        arr=np.array([[ (2.0**i)*(3.0**j) for j in range(k_out)] for i in range(k_in)])
        r=SimulationResult(arr,"probability",inputs=list(ins),outputs=list(outs))
        for i,a in enumerate(ins):
            for j,o in enumerate(outs):
                if not (r[a,o]==r[a][o]==r.array[i,j]==arr[i,j]): bad["idx"]+=1
        for inv in (False,True):
            for mp,f in (("apply_threshold_mapping",lambda s: [ (1 if x>=1 else 0) for x in s]),("apply_parity_mapping",lambda s:[x%2 for x in s])):
                m=getattr(r,mp)(invert=inv)
                for i,a in enumerate(ins):
                    exp=collections.defaultdict(float)
                    for j,o in enumerate(outs):
                        img=f(o.s); img=[1-x for x in img] if inv else img
                        exp[tuple(img)]+=arr[i,j]
                    got={tuple(o.s):m[a,o] for o in m.outputs}
                    for key in set(exp)|set(got):
                        if abs(exp.get(key,0)-got.get(key,0))>1e-12: bad[mp]+=1
                    if abs(sum(got.values())-arr[i].sum())>1e-9: bad["conserve"]+=1
                    # array consistent
                    for j,o in enumerate(m.outputs):
                        if m.array[m.inputs.index(a),j]!=m[a,o]: bad["maparr"]+=1
                m2=getattr(m,mp)(invert=False) if not inv else None
                if m2 is not None:
                    if {tuple(o.s):m2[ins[0],o] for o in m2.outputs}!={tuple(o.s):m[ins[0],o] for o in m.outputs}: bad["idem"]+=1
print("results",cnt,dict(bad))
ra=SimulationResult(np.array([[1j]]),"probability_amplitude",inputs=[states[1]],outputs=[states[1]])
for mp in ("apply_threshold_mapping","apply_parity_mapping"):
    try: getattr(ra,mp)(); print("amp mapping not refused")
    except ValueError: pass
