import lightworks as lw, numpy as np
from lightworks import emulator as emu
U = lw.random_unitary(3, seed=3); c=lw.Unitary(U)
def t(f):
    try: return f()
    except Exception as e: return "%s: %s"%(type(e).__name__, str(e)[:70])
print("QS vac pc", t(lambda: emu.QuickSampler(c, lw.State([0,0,0])).probability_distribution))
print("QS vac thr", t(lambda: emu.QuickSampler(c, lw.State([0,0,0]), photon_counting=False).probability_distribution))
print("Sim vac", t(lambda: emu.Simulator(c).simulate(lw.State([0,0,0])).array))
print("An vac", t(lambda: emu.Analyzer(c).analyze(lw.State([0,0,0])).array))
print("Sampler vac", t(lambda: emu.Sampler(c, lw.State([0,0,0])).probability_distribution))
print("Sampler vac slos", t(lambda: emu.Sampler(c, lw.State([0,0,0]),backend="slos").probability_distribution))
# sim invalid
print(t(lambda: emu.Simulator(c).simulate(lw.State([1,0]))))
print(t(lambda: emu.Simulator(c).simulate(lw.State([1,-1,0]))))
print(t(lambda: emu.Simulator(c).simulate(lw.State([1,0.5,0]))))
print(t(lambda: emu.Simulator(c).simulate(lw.State([1,True,0]))))
print(t(lambda: emu.Simulator(c).simulate(lw.State([1,0,0]), [lw.State([2,0,0])])))
print(t(lambda: emu.Simulator(c).simulate([lw.State([1,0,0]),lw.State([2,0,0])])))
print(t(lambda: emu.Simulator(c).simulate([])))
print(t(lambda: emu.Simulator(c).simulate(lw.State([1,0,0]), [])) )
import numpy
print(t(lambda: emu.Simulator(c).simulate(lw.State([numpy.int64(1),0,0]))))
# display barrier empty
d=lw.Circuit(2); d.barrier([])
print("display empty barrier", t(lambda: lw.Display(d)))
d=lw.Circuit(1); d.ps(0,1)
print("display 1 mode", type(t(lambda: lw.Display(d))))
