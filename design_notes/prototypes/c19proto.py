import sys, itertools, collections
sys.argv=[sys.argv[0],"0"]
import matplotlib; matplotlib.use("Agg")
import matplotlib.pyplot as plt
import lightworks as lw
import c02proto as C
O=C.ops(4)
def build(prog,n=4):
    P=lw.Circuit(n)
    for op in prog:
        try:
            if op[0]=="add":
                s,_=C.sub(op[1]); P.add(s,op[2],group=op[3])
            elif op[0]=="bs": P.bs(op[1],op[2],reflectivity=lw.Parameter(0.35,label="r"))
            elif op[0]=="ps": P.ps(op[1],lw.Parameter(0.9)); P.loss(op[1],0.2); P.barrier()
            elif op[0]=="sw": P.mode_swaps(op[1])
            elif op[0]=="her": P.herald(op[1],op[2],op[3])
        except (lw.ModeRangeError, ValueError): return None
    return P
res=collections.Counter(); ex={}
import time; t0=time.time(); cnt=0
for d in (1,2):
    for prog in itertools.product(O,repeat=d):
        P=build(prog)
        if P is None: continue
        try: P.U_full
        except Exception: res["uncompilable"]+=1; continue
        for dt in ("svg","mpl"):
            if dt=="mpl" and cnt%7: 
                cnt+=1; continue
            cnt+=1
            for loss in (False,True):
                try:
                    lw.Display(P, display_loss=loss, display_type=dt, show_parameter_values=loss, mode_labels=None if loss else [str(i)*2 for i in range(P.n_modes-len(P._internal_modes))])
                    res[(dt,"ok")]+=1
                except Exception as e:
                    k=(dt,type(e).__name__,str(e)[:50]); res[k]+=1
                    ex.setdefault(k,prog)
            plt.close("all")
print(time.time()-t0,res)
for k,v in ex.items(): print(k,v)
