import lightworks as lw, numpy as np, itertools
from lightworks import emulator as emu, qubit
from lightworks.tomography import StateTomography, density_from_state
np.set_printoptions(precision=3, suppress=True, linewidth=200)
seen=[]
def exact_dist(circ, state):
    s = emu.Sampler(circ, state)
    d = s.probability_distribution
    hv = circ.heralds["output"]; hm=list(hv)
    out = {}
    for st, p in d.items():
        if any(st[m]!=n for m,n in hv.items()): continue
        vis = [st[i] for i in range(len(st)) if i not in hm]
        if all(vis[2*q]+vis[2*q+1]==1 for q in range(len(vis)//2)):
            out[lw.State(vis)] = out.get(lw.State(vis),0)+p
    return out
def statevec(circ, n):
    # dual-rail amplitudes of |0..0> input
    sim = emu.Simulator(circ)
    ins = lw.State([1,0]*n)
    outs=[]; 
    for bits in itertools.product([0,1],repeat=n):
        s=[]
        for b in bits: s += [1,0] if b==0 else [0,1]
        outs.append(lw.State(s))
    r = sim.simulate(ins, outs).array[0]
    return r/np.linalg.norm(r)
def run(base, n):
    def exp(circuits):
        seen.append(len(circuits))
        return [exact_dist(c, lw.State([1,0]*n)) for c in circuits]
    t = StateTomography(n, base, exp)
    rho = t.process()
    psi = statevec(base, n)
    ref = density_from_state(psi)
    return abs(rho-ref).max(), t.fidelity(ref), abs(np.trace(rho)-1), abs(rho-rho.conj().T).max()
# 1 qubit: various
for th in [0.3,1.1]:
    c = lw.Circuit(2); c.add(qubit.Ry(th)); c.add(qubit.Rz(0.7)); print("1q", run(c,1))
    c = lw.Circuit(2); c.add(qubit.Rx(th)); print("1q rx", run(c,1))
# 2 qubit entangled, complex
c = lw.Circuit(4); c.add(qubit.H(),0); c.add(qubit.S(),0); c.add(qubit.Ry(0.4),2); c.add(qubit.CNOT(),0); c.add(qubit.T(),2)
print("2q cnot ps", run(c,2), seen[-1])
c = lw.Circuit(4); c.add(qubit.Rx(0.9),0); c.add(qubit.Ry(0.4),2); c.add(qubit.CNOT_Heralded(0),0); c.add(qubit.S(),2)
print("2q cnot her", run(c,2), seen[-1])
