import lightworks as lw, numpy as np, itertools, collections
from lightworks import emulator as emu
from lightworks.sdk.utils import add_heralds_to_state, remove_heralds_from_state
from c06 import amp, fock_basis
from c04proto import family
print(lw.__file__)
bad=collections.Counter(); cnt=0
for n,hers,losses,c in family():
    hin,hout=c.heralds["input"],c.heralds["output"]; v=c.input_modes; Uf=c.U_full; nl=Uf.shape[0]-c.n_modes
    sim=emu.Simulator(c)
    for nph in range(0,3):
        ins=[lw.State(list(s)) for s in fock_basis(v,nph)]
        if sum(hin.values())+nph>4: continue
        r=sim.simulate(ins)
        if [o.s for o in r.outputs]!=[list(s) for s in fock_basis(v,nph)] and sorted(o.s for o in r.outputs)!=sorted(list(s) for s in fock_basis(v,nph)): bad["outs"]+=1
        for i,a in enumerate(ins):
            fi=add_heralds_to_state(a,hin)+[0]*nl
            for j,o in enumerate(r.outputs):
                fo=add_heralds_to_state(o,hout)+[0]*nl
                ref=amp(Uf,fi,fo); cnt+=1
                if abs(ref-r.array[i,j])>1e-9: bad["amp"]+=1
            if not losses and not hers and abs(sum(abs(r.array[i])**2)-1)>1e-9: bad["norm"]+=1
        # QuickSampler vs Sampler conditional
        for a in ins:
            if nph==0: continue
            for pc in (True,False):
                for psn,ps in (("none",None),("fn",lambda s: s[0]<=1)):
                    sd=emu.Sampler(c,a).probability_distribution
                    cond=collections.defaultdict(float)
                    for st,p in sd.items():
                        if any(st[m]!=k for m,k in hout.items()): continue
                        vis=remove_heralds_from_state(st,list(hout.keys()))
                        if sum(vis)!=nph: continue
                        if not pc and max(vis)>1: continue
                        if ps and not ps(lw.State(vis)): continue
                        cond[tuple(vis)]+=p
                    tot=sum(cond.values())
                    try:
                        q=emu.QuickSampler(c,a,photon_counting=pc,post_select=ps).probability_distribution
                    except Exception as e:
                        if tot>1e-6: bad[("qs-raise",type(e).__name__)]+=1
                        continue
                    if tot<=1e-9: bad["qs-should-raise?"]+=1; continue
                    keys=set(cond)|set(tuple(k.s) for k in q)
                    err=max(abs(cond.get(k,0)/tot-q.get(lw.State(list(k)),0)) for k in keys)
                    if err>1e-6: bad["qs-value"]+=1
print(cnt,dict(bad))
