"""Prototype reference model for circuits in canonical (user-mode + ancilla) form."""
import numpy as np, itertools, math
import lightworks as lw

class Ref:
    """canonical: matrix over [user modes..., ancillas...] ; anc = list of photon numbers"""
    def __init__(self, n):
        self.v = n
        self.anc = []
        self.M = np.eye(n, dtype=complex)
    def copy(self):
        r = Ref(self.v); r.anc=list(self.anc); r.M=self.M.copy(); return r
    @property
    def N(self): return self.v+len(self.anc)
    def apply(self, idx, mat):
        E = np.eye(self.N, dtype=complex)
        E[np.ix_(idx, idx)] = mat
        self.M = E @ self.M
    def bs(self, a, b, r, conv="Rx"):
        t=math.acos(math.sqrt(r))
        if conv=="Rx": m=np.array([[math.cos(t),1j*math.sin(t)],[1j*math.sin(t),math.cos(t)]])
        else: m=np.array([[math.cos(t),math.sin(t)],[math.sin(t),-math.cos(t)]])
        self.apply([a,b], m)
    def ps(self, a, phi): self.apply([a], np.array([[np.exp(1j*phi)]]))
    def loss(self, a, l): self.apply([a], np.array([[math.sqrt(1-l)]]))
    def swaps(self, d):
        ks=sorted(d); P=np.zeros((len(ks),len(ks)))
        for k in ks: P[ks.index(d[k]), ks.index(k)] = 1
        self.apply(ks, P)
    def unitary(self, a, U): self.apply(list(range(a,a+U.shape[0])), U)
    def herald(self, n, i, o):
        # user modes i (input) and o (output) become an ancilla: reorder
        cols = [c for c in range(self.v) if c!=i] + [i] + list(range(self.v, self.N))
        rows = [r for r in range(self.v) if r!=o] + [o] + list(range(self.v, self.N))
        # new ancilla goes FIRST among ancillas? keep declaration order: append at end
        cols = [c for c in range(self.v) if c!=i] + list(range(self.v, self.N)) + [i]
        rows = [r for r in range(self.v) if r!=o] + list(range(self.v, self.N)) + [o]
        self.M = self.M[np.ix_(rows, cols)]
        self.v -= 1; self.anc.append(n)
    def add(self, sub, m):
        assert m + sub.v <= self.v
        # pad self with sub's ancillas
        N0=self.N
        M = np.eye(N0+len(sub.anc), dtype=complex); M[:N0,:N0]=self.M
        self.M = M; self.anc += sub.anc
        idx = list(range(m, m+sub.v)) + list(range(N0, N0+len(sub.anc)))
        self.apply(idx, sub.M)

def canon_impl(c):
    U = c.U
    h = c.heralds
    hin, hout = h["input"], h["output"]
    n = c.n_modes
    cols = [i for i in range(n) if i not in hin] + list(hin.keys())
    rows = [i for i in range(n) if i not in hout] + list(hout.keys())
    anc = [hin[k] for k in hin]
    anc_o = [hout[k] for k in hout]
    return U[np.ix_(rows, cols)], anc, anc_o

def relevant_equal(Mi, anci, Mr, ancr, tol=1e-9):
    if Mi.shape != Mr.shape or anci != ancr: return False
    v = Mi.shape[0]-len(anci)
    keep = list(range(v)) + [v+k for k,n in enumerate(anci) if n>0]
    return np.allclose(Mi[np.ix_(keep,keep)], Mr[np.ix_(keep,keep)], atol=tol)
