import lightworks as lw, numpy as np, itertools, math
from lightworks import emulator as emu
from collections import defaultdict

def fock_basis(m, n):
    if m == 1: yield (n,); return
    for k in range(n+1):
        for rest in fock_basis(m-1, n-k): yield (k,)+rest
def perm_naive(A):
    n=A.shape[0]
    if n==0: return 1.0
    return sum(np.prod([A[i,p[i]] for i in range(n)]) for p in itertools.permutations(range(n)))
def amp(U, s, t):
    rows=[i for i,k in enumerate(t) for _ in range(k)]; cols=[i for i,k in enumerate(s) for _ in range(k)]
    if len(rows)!=len(cols): return 0
    f=math.prod(math.factorial(k) for k in s)*math.prod(math.factorial(k) for k in t)
    return perm_naive(U[np.ix_(rows,cols)])/math.sqrt(f)
def ref_dist(Ufull, n_modes, s):
    """distribution over patterns on real modes, marginalising loss modes"""
    N=Ufull.shape[0]; s=tuple(s)+(0,)*(N-n_modes); n=sum(s)
    d=defaultdict(float)
    for t in fock_basis(N,n):
        d[t[:n_modes]] += abs(amp(Ufull,s,t))**2
    return d
def purity_p2(purity):
    # g2 = 2 p2 / (p1+2p2)^2 = 1-purity ; p1=1-p2
    if purity==1: return 0.0
    g2=1-purity
    # 2 p2 = g2 (1+p2)^2 -> g2 p2^2 + (2 g2 - 2) p2 + g2 = 0
    a,b,c=g2,2*g2-2,g2
    return (-b-math.sqrt(b*b-4*a*c))/(2*a)
def ref_source_dist(Ufull, n_modes, inp, brightness, purity, indist):
    p2=purity_p2(purity); p1=1-p2; nu=brightness; pi=math.sqrt(indist)
    # per photon outcomes: list of (prob, list of labels) labels: 'I' indistinguishable, or unique
    photons=[m for m,k in enumerate(inp) for _ in range(k)]
    out=defaultdict(float)
    def outcomes(idx):
        res=[]
        # emission: single (p1) or pair signal+noise (p2); each transmitted w.p. nu
        for emit,pe in (("single",p1),("pair",p2)):
            if pe==0: continue
            for sig_ok in (0,1):
                psig = nu if sig_ok else 1-nu
                if psig==0: continue
                noises = [(0,1.0)] if emit=="single" else [(0,1-nu),(1,nu)]
                for noise_ok,pn in noises:
                    if pn==0: continue
                    if sig_ok:
                        for ind,pind in ((1,pi),(0,1-pi)):
                            if pind==0: continue
                            labs=['I' if ind else ('d',idx)]
                            if noise_ok: labs.append(('n',idx))
                            res.append((pe*psig*pn*pind, labs))
                    else:
                        labs=[('n',idx)] if noise_ok else []
                        res.append((pe*psig*pn, labs))
        return res
    per=[outcomes(i) for i in range(len(photons))]
    cache={}
    def dist_of(state):
        if state not in cache: cache[state]=ref_dist(Ufull,n_modes,state)
        return cache[state]
    for combo in itertools.product(*per) if per else [()]:
        p=math.prod(c[0] for c in combo)
        groups=defaultdict(lambda:[0]*n_modes)
        for ph,(_,labs) in zip(photons,combo):
            for l in labs: groups[l][ph]+=1
        d={(0,)*n_modes:1.0}
        for g in groups.values():
            dg=dist_of(tuple(g)); nd=defaultdict(float)
            for a,pa in d.items():
                for b,pb in dg.items():
                    nd[tuple(x+y for x,y in zip(a,b))]+=pa*pb
            d=nd
        for k,v in d.items(): out[k]+=p*v
    return out
if __name__=="__main__":
    U=lw.random_unitary(3,seed=11)
    c=lw.Unitary(U); c.loss(0,0.3)
    for inp in [[1,1,0],[2,0,1],[0,1,0],[0,0,0]]:
      for (b,pu,ind) in [(0.9,0.9,0.9),(1,1,0),(0.5,1,1),(1,0.8,1),(0.7,0.95,0.3),(0,0.9,0.5)]:
        for be in ["permanent","slos"]:
            s=emu.Sampler(c, lw.State(inp), source=emu.Source(purity=pu,brightness=b,indistinguishability=ind), backend=be)
            d=s.probability_distribution
            r=ref_source_dist(c.U_full,3,inp,b,pu,ind)
            keys=set(tuple(k.s) for k in d)|set(r)
            err=max(abs(d.get(lw.State(list(k)),0)-r.get(k,0)) for k in keys)
            tot=sum(d.values())
            if err>1e-7 or abs(tot-1)>1e-6: print(inp,b,pu,ind,be,"err",err,"tot",tot)
    print("done")
