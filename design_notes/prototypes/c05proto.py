import lightworks as lw, numpy as np, itertools, collections
from lightworks import emulator as emu
print(lw.__file__)
from c06 import ref_dist, fock_basis
def circuits():
    out=[]
    for nm,hers,losses in [(3,[],[]),(3,[(1,1,1)],[]),(3,[(1,0,0)],[(1,0.3)]),(4,[(1,3,3),(0,0,0)],[(2,0.25)]),(3,[(2,2,2)],[]),(4,[(1,1,1),(1,2,2)],[(0,0.4),(3,0.1)])]:
        c=lw.Unitary(lw.random_unitary(nm,seed=nm*7+len(hers)))
        for m,l in losses: c.loss(m,l)
        c2=lw.Circuit(nm); c2.add(c); c2.bs(0,reflectivity=0.4)
        for n,i,o in hers: c2.herald(n,i,o)
        out.append(c2)
    return out
bad=collections.Counter()
for c in circuits():
    v=c.input_modes; hin=c.heralds["input"]; hout=c.heralds["output"]
    for nph in (1,2):
        ins=[lw.State(list(s)) for s in fock_basis(v,nph)]
        for psname,ps in [("none",None),("m0=1",(lambda: (lambda p:(p.add(0,1),p)[1])(lw.PostSelection()))()),("fn",lambda s: s[0]<=1)]:
            an=emu.Analyzer(c); an.post_selection=ps
            try: r=an.analyze(ins)
            except Exception as e:
                bad[("raise",type(e).__name__,str(e)[:40])]+=1; continue
            perf=0
            for i,s in enumerate(ins):
                sm=emu.Sampler(c,s); pd=sm.probability_distribution
                tot=0
                for j,o in enumerate(r.outputs):
                    full=lw.State(lw.sdk.utils.add_heralds_to_state(o,hout))
                    p=pd.get(full,0)
                    if abs(p-r.array[i,j])>1e-7: bad["prob mismatch"]+=1
                    tot+=r.array[i,j]
                perf+=tot
            if abs(perf/len(ins)-r.performance)>1e-9: bad["perf"]+=1
            bad["ok"]+=1
print(bad)
