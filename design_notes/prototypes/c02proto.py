import sys, numpy as np, itertools, collections
import lightworks as lw
print(lw.__file__)
from ref2 import *

def U(n,seed): return lw.random_unitary(n, seed=seed)
SUBS={}
def sub(name):
    """fresh (impl, ref) for each use"""
    if name=="bs2":
        c=lw.Circuit(2); c.bs(0,reflectivity=0.3); r=Ref(2); r.bs(0,1,0.3)
    elif name=="u3":
        c=lw.Unitary(U(3,5)); r=Ref(3); r.unitary(0,U(3,5))
    elif name=="h3mid":
        c=lw.Unitary(U(3,7)); c.herald(1,1); r=Ref(3); r.unitary(0,U(3,7)); r.herald(1,1,1)
    elif name=="h3io":
        c=lw.Unitary(U(3,8)); c.herald(1,0,2); r=Ref(3); r.unitary(0,U(3,8)); r.herald(1,0,2)
    elif name=="h4desc":
        c=lw.Unitary(U(4,9)); c.herald(1,3,0); c.herald(0,1,2); r=Ref(4); r.unitary(0,U(4,9)); r.herald(1,3,0); r.herald(0,1,2)
    elif name=="h4two":
        c=lw.Unitary(U(4,10)); c.herald(2,2,1); c.herald(1,1,3); r=Ref(4); r.unitary(0,U(4,10)); r.herald(2,2,1); r.herald(1,1,3)
    elif name=="nest":
        c=lw.Circuit(3); r=Ref(3)
        s,sr=sub("h3mid"); c.add(s,1); r.add(sr,1)
        c.bs(0,2,reflectivity=0.6); r.bs(0,2,0.6)
        c.herald(1,2,0); r.herald(1,2,0)
    elif name=="lossy":
        c=lw.Circuit(3); r=Ref(3); c.bs(0,reflectivity=0.2); r.bs(0,1,0.2); c.loss(1,0.3); r.loss(1,0.3); c.bs(1,reflectivity=0.7); r.bs(1,2,0.7); c.herald(1,0,1); r.herald(1,0,1)
    return c,r
names=["bs2","u3","h3mid","h3io","h4desc","h4two","nest","lossy"]
def ops(n):
    o=[]
    for nm in names:
        for m in range(-1,n+1):
            for g in (False,True): o.append(("add",nm,m,g))
    for a,b in [(0,1),(1,2),(0,n-1),(n-1,0)]: o.append(("bs",a,b))
    o.append(("ps",n-1)); o.append(("sw",{0:n-1,n-1:0}))
    for i,ou in [(0,0),(1,n-1),(n-1,1)]: o.append(("her",1,i,ou))
    return o
def run(prog,n):
    P=lw.Circuit(n); R=Ref(n)
    for op in prog:
        if op[0]=="add":
            s,sr=sub(op[1]); valid=R.can_add(sr,op[2])
            nm0=s.n_modes
            try: P.add(s,op[2],group=op[3]); ok=True
            except lw.ModeRangeError: ok=False
            if s.n_modes!=nm0: return "argmut"
            if ok!=valid: return "range(ok=%s valid=%s)"%(ok,valid)
            if not ok: return "rejected"
            R.add(sr,op[2])
        elif op[0]=="bs":
            P.bs(op[1],op[2],reflectivity=0.35); R.bs(op[1],op[2],0.35)
        elif op[0]=="ps": P.ps(op[1],0.9); R.ps(op[1],0.9)
        elif op[0]=="sw": P.mode_swaps(op[1]); R.swaps(op[1])
        elif op[0]=="her":
            valid=R.can_herald(op[2],op[3])
            try: P.herald(op[1],op[2],op[3]); ok=True
            except ValueError: ok=False
            if ok!=valid: return "heraldvalid"
            if not ok: return "rejected"
            R.herald(op[1],op[2],op[3])
        if P.n_modes-len(P._internal_modes)!=R.c: return "usermodes"
    try: I=impl_scatter(P)
    except Exception as e: return "compile:"+type(e).__name__
    return "ok" if scatter_equal(I,R.scatter()) else "wrong"
depth=int(sys.argv[1]); n=4
res=collections.Counter(); ex={}
O=ops(n)
cnt=0
for d in range(1,depth+1):
    for prog in itertools.product(O,repeat=d):
        r=run(prog,n); cnt+=1
        if r=="rejected": continue
        res[r]+=1
        if r!="ok" and r not in ex: ex[r]=prog
print(cnt,res)
for k,v in ex.items(): print(k,v)
