import sys, itertools, collections, numpy as np, math, time
import lightworks as lw
from ref2 import Ref
n=3
R=[0,0.37,1]; L=[0,0.42,1]; PH=[0.7,-2.1,7.5]
ops=[]
for a,b in itertools.permutations(range(n),2):
    for cv in ("Rx","H"):
        for r in R: ops.append(("bs",a,b,r,cv,0))
ops.append(("bs",0,1,0.37,"Rx",0.2)); ops.append(("bsdef",1,0.6))
for m in range(n):
    for ph in PH: ops.append(("ps",m,ph,0))
    ops.append(("ps",m,0.3,0.25))
    for l in L: ops.append(("loss",m,l))
for k in (2,3):
    for sub in itertools.combinations(range(n),k):
        for perm in itertools.permutations(sub):
            if perm!=sub: ops.append(("sw",dict(zip(sub,perm))))
U2=lw.random_unitary(2,seed=3); U3=lw.random_unitary(3,seed=4)
for m in (0,1):
    for g in (False,True): ops.append(("uni",2,m,g))
ops.append(("uni",3,0,False)); ops.append(("bar",None)); ops.append(("bar",[1])); ops.append(("bar",[]))
print(len(ops))
def run(prog):
    c=lw.Circuit(n); r=Ref(n); nloss=0
    for op in prog:
        if op[0]=="bs":
            _,a,b,rf,cv,l=op; c.bs(a,b,reflectivity=rf,convention=cv,loss=l); r.bs(a,b,rf,cv)
            if l>0: r.loss(a,l); r.loss(b,l); nloss+=2
        elif op[0]=="bsdef": c.bs(op[1],reflectivity=op[2]); r.bs(op[1],op[1]+1,op[2])
        elif op[0]=="ps":
            c.ps(op[1],op[2],loss=op[3]); r.ps(op[1],op[2])
            if op[3]>0: r.loss(op[1],op[3]); nloss+=1
        elif op[0]=="loss": c.loss(op[1],op[2]); r.loss(op[1],op[2]); nloss+=1
        elif op[0]=="sw": c.mode_swaps(op[1]); r.swaps(op[1])
        elif op[0]=="uni":
            U=U2 if op[1]==2 else U3; c.add(lw.Unitary(U),op[2],group=op[3]); r.unitary(op[2],U)
        elif op[0]=="bar": c.barrier(op[1])
    Uf=c.U_full
    if Uf.shape[0]!=n+nloss: return "lossmodes"
    if not np.allclose(Uf.conj().T@Uf,np.eye(n+nloss),atol=1e-9): return "notunitary"
    if not np.array_equal(c.U,Uf[:n,:n]): return "block"
    if not np.allclose(c.U,r.M,atol=1e-9): return "product"
    return "ok"
res=collections.Counter(); ex={}; t0=time.time(); cnt=0
for d in (1,2,3):
    it=itertools.product(ops,repeat=d) if d<3 else itertools.product(ops[::3],ops,ops[1::4])
    for prog in it:
        k=run(prog); res[k]+=1; cnt+=1
        if k!="ok": ex.setdefault(k,prog)
print(cnt,time.time()-t0,res,ex)
