import lightworks as lw, numpy as np, itertools, collections
from lightworks.interferometers import Reck, ErrorModel
from lightworks.interferometers.dists import Gaussian, TopHat, Constant
from lightworks.sdk.circuit.components import BeamSplitter, PhaseShifter, Loss
print(lw.__file__)
bad=collections.Counter()
dists={"bs":[Constant(0.5),TopHat(0.45,0.55),Gaussian(0.5,0.02,0.4,0.6)],
       "loss":[Constant(0),Constant(0.1),TopHat(0.05,0.15),Gaussian(0.1,0.05,0,0.2)],
       "ph":[Constant(0),TopHat(-0.1,0.1),Gaussian(0,0.05,-0.1,0.1)]}
bounds={Constant:lambda d:(d._value,d._value),TopHat:lambda d:(d._min_value,d._max_value),Gaussian:lambda d:(d._min_value,d._max_value)}
circs=[]
for n,seed in [(2,1),(3,2),(4,3)]:
    c=lw.Unitary(lw.random_unitary(n,seed=seed)); circs.append(c)
c=lw.Unitary(lw.random_unitary(4,seed=9)); c.herald(1,0,2); c.herald(0,3); circs.append(c)
cnt=0
for c in circs:
    ideal=Reck().map(c)
    ip=[s.phi for s in ideal._get_circuit_spec() if isinstance(s,PhaseShifter)]
    for b,l,p in itertools.product(dists["bs"],dists["loss"],dists["ph"]):
        em=ErrorModel(); em.bs_reflectivity=b; em.loss=l; em.phase_offset=p
        r=Reck(em)
        for seed in (0,1,2):
            m1=r.map(c,seed=seed); m2=r.map(c,seed=seed); cnt+=1
            s1=m1._get_circuit_spec(); s2=m2._get_circuit_spec()
            if s1!=s2: bad["seed-repro"]+=1
            if m1.heralds!=c.heralds: bad["heralds"]+=1
            for s in s1:
                if isinstance(s,BeamSplitter):
                    lo,hi=bounds[type(b)](b)
                    if not lo<=s.reflectivity<=hi: bad["bs-bound"]+=1
                    if abs(s.mode_1-s.mode_2)!=1: bad["nonadj"]+=1
                if isinstance(s,Loss):
                    lo,hi=bounds[type(l)](l)
                    if not lo<=s.loss<=hi: bad["loss-bound"]+=1
            ph=[s.phi for s in s1 if isinstance(s,PhaseShifter)]
            lo,hi=bounds[type(p)](p)
            for a,b0 in zip(ph,ip):
                if not 0<=a<2*np.pi: bad["phase-range"]+=1
                off=(a-b0+np.pi)%(2*np.pi)-np.pi
                if not lo-1e-9<=off<=hi+1e-9: bad["ph-bound"]+=1
            sv=np.linalg.svd(m1.U,compute_uv=False)
            if sv.max()>1+1e-9: bad["superunitary"]+=1
            Uf=m1.U_full
            if not np.allclose(Uf.conj().T@Uf,np.eye(Uf.shape[0]),atol=1e-9): bad["U_full-nonunitary"]+=1
print(cnt,dict(bad))
# number of Loss components when loss constant 0
m=Reck().map(circs[1]); print("loss comps with default model:", sum(isinstance(s,Loss) for s in m._get_circuit_spec()))
