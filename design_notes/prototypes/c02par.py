import sys, itertools, collections, multiprocessing as mp
sys.argv=[sys.argv[0],"0"]
import importlib
def work(first_idx):
    import c02proto as C
    O=C.ops(4); res=collections.Counter(); ex={}
    f=O[first_idx]
    for rest in itertools.product(O,repeat=2):
        prog=(f,)+rest
        r=C.run(prog,4)
        if r=="rejected": continue
        res[r]+=1
        if r!="ok" and r not in ex: ex[r]=prog
    return res,ex
if __name__=="__main__":
    import c02proto as C
    n=len(C.ops(4))
    with mp.Pool(16) as p:
        tot=collections.Counter(); exs={}
        for res,ex in p.imap_unordered(work, range(n)):
            tot+=res
            for k,v in ex.items(): exs.setdefault(k,v)
    print(tot); print(exs)
