import numpy as np, itertools
import lightworks as lw
from ref import *

def mk_sub(kind):
    """return (impl circuit, ref)"""
    if kind=="bs2":
        c=lw.Circuit(2); c.bs(0, reflectivity=0.3); r=Ref(2); r.bs(0,1,0.3); return c,r
    if kind=="u3":
        U=lw.random_unitary(3, seed=5); c=lw.Unitary(U); r=Ref(3); r.unitary(0,U); return c,r
    if kind=="h3a":  # 3 modes, herald middle (1 photon)
        U=lw.random_unitary(3, seed=7); c=lw.Unitary(U); c.herald(1,1); r=Ref(3); r.unitary(0,U); r.herald(1,1,1); return c,r
    if kind=="h3b":  # herald in 0 -> out 2
        U=lw.random_unitary(3, seed=8); c=lw.Unitary(U); c.herald(1,0,2); r=Ref(3); r.unitary(0,U); r.herald(1,0,2); return c,r
    if kind=="h4":  # two heralds declared in reverse order
        U=lw.random_unitary(4, seed=9); c=lw.Unitary(U); c.herald(1,3,0); c.herald(0,1,1)
        r=Ref(4); r.unitary(0,U); r.herald(1,3,0); r.herald(0,1,0)  # after first herald user idx shift: in1->? compute below
        return c,None
    raise

def refherald(r, c_heralds_calls):
    pass

kinds=["bs2","u3","h3a","h3b"]
fails=[]
tot=0
for n in [4,5]:
  for k1,k2 in itertools.product(kinds, repeat=2):
    for g1,g2 in itertools.product([False,True], repeat=2):
      s1,r1=mk_sub(k1); s2,r2=mk_sub(k2)
      for m1 in range(n):
        for m2 in range(n):
          P=lw.Circuit(n); R=Ref(n)
          P.bs(0, reflectivity=0.4); R.bs(0,1,0.4)
          ok1 = m1 + r1.v <= R.v
          try:
              P.add(s1, m1, group=g1); did1=True
          except lw.ModeRangeError: did1=False
          if did1!=ok1: fails.append(("range1",n,k1,g1,m1)); continue
          if not did1: continue
          R.add(r1,m1)
          ok2 = m2 + r2.v <= R.v
          n_before = s2.n_modes
          try:
              P.add(s2, m2, group=g2); did2=True
          except lw.ModeRangeError: did2=False
          tot+=1
          if s2.n_modes != n_before: fails.append(("argmut",n,k1,g1,m1,k2,g2,m2)); s2,r2=mk_sub(k2)
          if did2!=ok2: fails.append(("range2",n,k1,g1,m1,k2,g2,m2)); continue
          if not did2: continue
          R.add(r2,m2)
          try:
              Mi,anci,anco=canon_impl(P)
          except Exception as e:
              fails.append(("compile",n,k1,g1,m1,k2,g2,m2,type(e).__name__)); continue
          if not relevant_equal(Mi,anci,R.M,R.anc): fails.append(("wrong",n,k1,g1,m1,k2,g2,m2))
print(tot, len(fails))
from collections import Counter
print(Counter(f[0] for f in fails))
for f in fails[:40]: print(f)
