import lightworks as lw, numpy as np, itertools, warnings
from lightworks.interferometers import Reck, ErrorModel
from lightworks.interferometers.dists import Gaussian, TopHat, Constant
r = Reck()
def chk(U, name):
    try:
        c = lw.Unitary(np.array(U, dtype=complex))
        m = r.map(c)
        err = abs(m.U - c.U).max()
        # phases
        bad=[]
        for s in m._get_circuit_spec():
            if type(s).__name__=="PhaseShifter" and not (0 <= s.phi < 2*np.pi): bad.append(s.phi)
            if type(s).__name__=="BeamSplitter" and abs(s.mode_1-s.mode_2)!=1: bad.append(("bs",s))
        return err, bad
    except Exception as e:
        return type(e).__name__, str(e)[:80]
worst=0
# all permutation matrices n<=4 with phases
cnt=0
for n in [1,2,3,4]:
    for p in itertools.permutations(range(n)):
        for ph in itertools.product([1,-1,1j], repeat=min(n,2)):
            U=np.zeros((n,n),complex)
            for i,j in enumerate(p): U[j,i]= ph[i % len(ph)]
            res=chk(U,"perm")
            cnt+=1
            if isinstance(res[0],str) or res[0]>1e-8 or res[1]: print(n,p,ph,res)
print("perms done",cnt)
# block diagonal, hadamard-like
H=np.array([[1,1],[1,-1]])/2**.5
for U in [np.kron(np.eye(2),H), np.kron(H,np.eye(2)), np.kron(H,H), np.eye(3), -np.eye(3), np.fft.fft(np.eye(3))/3**.5, np.fft.fft(np.eye(4))/2]:
    print(chk(U,""))
# near-degenerate
for eps in [1e-21,1e-18,1e-12,1e-9,1e-6]:
    c=np.sqrt(1-eps**2)
    U=np.array([[c,eps,0],[-eps,c,0],[0,0,1]])
    print(eps, chk(U,""))
# 2π issue
print((-1e-17)%(2*np.pi), (-1e-17)%(2*np.pi) < 2*np.pi)
