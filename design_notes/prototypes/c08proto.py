import lightworks as lw, numpy as np
from lightworks import qubit, emulator as emu
from lightworks.tomography import StateTomography, LIProcessTomography
from lightworks.tomography.mappings import MEASUREMENT_MAPPING, INPUT_MAPPING
from lightworks.qubit.converter.qiskit_convert import SINGLE_QUBIT_GATES_MAP
print(lw.__file__)
def fp(c): return (c.n_modes, tuple(c.heralds["input"].items()), c.U_full.shape, c.U_full.tobytes())
def snap(): return {("M",k):fp(v) for k,v in MEASUREMENT_MAPPING.items()}|{("I",k):fp(v[1]) for k,v in INPUT_MAPPING.items()}|{("G",k):fp(v) for k,v in SINGLE_QUBIT_GATES_MAP.items()}
s0=snap()
# base circuit with an ancilla between the two rails of qubit 0
sub=lw.Unitary(lw.random_unitary(3,seed=1)); sub.herald(1,1)
base=lw.Circuit(2); base.add(sub,0)
print("base n_modes",base.n_modes,"internal",base._internal_modes,"input_modes",base.input_modes)
fb=fp(base)
def exp(circuits, *a): 
    return [{lw.State([1,0]):1} for c in circuits]
t=StateTomography(1,base,exp); 
try: t.process()
except Exception as e: print("tomo raised",type(e).__name__,e)
s1=snap()
print("state tomo mutated shared:", [k for k in s0 if s0[k]!=s1[k]], "base changed:", fb!=fp(base))
try:
    LIProcessTomography(1,base,lambda c,i:[{lw.State([1,0]):1} for _ in c]).process()
except Exception as e: print("li raised",type(e).__name__,str(e)[:80])
s2=snap(); print("process tomo mutated shared:", [k for k in s0 if s0[k]!=s2[k]])
