import sys, itertools, collections, numpy as np
import lightworks as lw
from qiskit import QuantumCircuit
sys.argv=[sys.argv[0]]
import f2
from f2 import check
n=3
two=[(g,a,b) for g in ("cx","cz","swap") for a in range(n) for b in range(n) if a!=b]
three=[(g,)+p for g in ("ccx","ccz") for p in itertools.permutations(range(n))]
multi=two+three
singles=[None,("h",),("s",),("ry",0.7)]
def build(prog):
    qc=QuantumCircuit(n)
    for g in prog:
        if g[0] in ("h","s"): getattr(qc,g[0])(g[1])
        elif g[0]=="ry": qc.ry(g[1],g[2])
        else: getattr(qc,g[0])(*g[1:])
    return qc
res=collections.Counter(); ex={}
cnt=0
import time; t0=time.time()
for d in (1,2):
    for gates in itertools.product(multi,repeat=d):
        # decorate: h on q0 and ry on q1, s on q2 before; 
        prog=[("h",0),("ry",0.7,1),("s",2)]
        for g in gates:
            prog.append(g); prog.append(("ry",0.4,g[1])); prog.append(("s",g[2]))
        qc=build(prog)
        for aps in (False,True):
            r=check(qc,aps); cnt+=1
            if isinstance(r,str): k="refused"
            else:
                k="ok" if (r["err"]<1e-9 and r["leak"]<1e-9 and r["s2"]>1e-12) else "WRONG"
            res[(aps,k)]+=1
            if k=="WRONG" and (aps,d) not in ex: ex[(aps,d)]=(gates,r)
print(cnt, time.time()-t0, res)
for k,v in ex.items(): print(k,v)
