import lightworks as lw, numpy as np, warnings
from lightworks import emulator as emu, qubit
from lightworks.tomography import *
from lightworks.tomography import GateFidelity
np.set_printoptions(precision=3, suppress=True, linewidth=200)

def exact_dist(circ, state):
    s = emu.Sampler(circ, state)
    d = s.probability_distribution
    # heralded + restrict to dual-rail valid
    hm = list(circ.heralds["output"].keys()); hv = circ.heralds["output"]
    out = {}
    for st, p in d.items():
        if any(st[m]!=n for m,n in hv.items()): continue
        vis = [st[i] for i in range(len(st)) if i not in hm]
        if all(vis[2*q]+vis[2*q+1]==1 for q in range(len(vis)//2)):
            out[lw.State(vis)] = out.get(lw.State(vis),0)+p
    return out

def exp_proc(circuits, inputs):
    return [exact_dist(c, i) for c, i in zip(circuits, inputs)]

def gate(U):
    return lw.Unitary(np.array(U, dtype=complex))

S = np.array([[1,0],[0,1j]])
th=0.7
Ry = np.array([[np.cos(th/2), -np.sin(th/2)],[np.sin(th/2), np.cos(th/2)]])
H = np.array([[1,1],[1,-1]])/2**0.5
for name, V in [("H",H),("S",S),("Ry",Ry)]:
    li = LIProcessTomography(1, gate(V), exp_proc); ch = li.process()
    ref = choi_from_unitary(V)
    print(name, "LI==ref", np.allclose(ch, ref, atol=1e-8), "fid", li.fidelity(ref))
    print("   LI==ref^T", np.allclose(ch, ref.T, atol=1e-8), "LI==conj", np.allclose(ch, ref.conj(), atol=1e-8))
    alt = np.outer(V.T.flatten(), V.T.flatten().conj())
    print("   LI==choi(V^T)", np.allclose(ch, alt, atol=1e-8))
    with warnings.catch_warnings():
        warnings.simplefilter("ignore")
        mle = MLEProcessTomography(1, gate(V), exp_proc); cm = mle.process()
    print("   MLE fid to ref", mle.fidelity(ref), "to LI", process_fidelity(cm, ch), "maxmixed?", np.allclose(cm, np.eye(4)/2, atol=1e-3))
    gf = GateFidelity(1, gate(V), exp_proc)
    print("   gate fid", gf.process(V), "vs X:", gf.process(np.array([[0,1],[1,0]])), "formula", (abs(np.trace(np.array([[0,1],[1,0]]).conj().T@V))**2+2)/6)
