import lightworks as lw, numpy as np, itertools, math
from lightworks import qubit, emulator as emu
from c06 import amp, fock_basis
def dual(bits):
    s=[]
    for b in bits: s+= [1,0] if b==0 else [0,1]
    return s
def gate_matrix(circ, n):
    """return (A[out_idx,in_idx] over qubit basis big-endian, max leak amplitude over heralded non-qubit outputs)"""
    U=circ.U_full; hin=circ.heralds["input"]; hout=circ.heralds["output"]; N=circ.n_modes
    vis_in=[m for m in range(N) if m not in hin]; vis_out=[m for m in range(N) if m not in hout]
    basis=list(itertools.product([0,1],repeat=n)); A=np.zeros((2**n,2**n),complex); leak=0
    for ci,b in enumerate(basis):
        s=[0]*U.shape[0]
        for m,k in hin.items(): s[m]=k
        for m,k in zip(vis_in,dual(b)): s[m]=k
        for o in fock_basis(len(vis_out), n):
            t=[0]*U.shape[0]
            for m,k in hout.items(): t[m]=k
            for m,k in zip(vis_out,o): t[m]=k
            a=amp(U,s,t)
            pairs=[o[2*q:2*q+2] for q in range(n)]
            if all(p in ((1,0),(0,1)) for p in pairs):
                ri=basis.index(tuple(0 if p==(1,0) else 1 for p in pairs)); A[ri,ci]=a
            else: leak=max(leak,abs(a))
    return A,leak
def cmp(A,G):
    i=np.unravel_index(np.argmax(abs(G)),G.shape); s=A[i]/G[i]
    return abs(s)**2, abs(A-s*G).max()
X=np.array([[0,1],[1,0]]);Y=np.array([[0,-1j],[1j,0]]);Z=np.diag([1,-1]);H=np.array([[1,1],[1,-1]])/2**.5;I2=np.eye(2)
P0=np.diag([1,0]);P1=np.diag([0,1])
def kron(*a):
    r=np.eye(1)
    for x in a: r=np.kron(r,x)
    return r
def cnot(n,c,t):  # big-endian qubit index 0 = leftmost
    ops0=[I2]*n; ops0[c]=P0; ops1=[I2]*n; ops1[c]=P1; ops1[t]=X
    return kron(*ops0)+kron(*ops1)
res=[]
for name,G in [("I",I2),("H",H),("X",X),("Y",Y),("Z",Z),("S",np.diag([1,1j])),("Sadj",np.diag([1,-1j])),("T",np.diag([1,np.exp(1j*np.pi/4)])),("Tadj",np.diag([1,np.exp(-1j*np.pi/4)])),("SX",0.5*np.array([[1+1j,1-1j],[1-1j,1+1j]]))]:
    A,l=gate_matrix(getattr(qubit,name)(),1); res.append((name,)+cmp(A,G)+(l,))
for th in [0,math.pi/2,math.pi,0.7,-1.3,2*math.pi+0.4]:
    for name,G in [("Rx",np.array([[math.cos(th/2),-1j*math.sin(th/2)],[-1j*math.sin(th/2),math.cos(th/2)]])),("Ry",np.array([[math.cos(th/2),-math.sin(th/2)],[math.sin(th/2),math.cos(th/2)]])),("Rz",np.diag([np.exp(-1j*th/2),np.exp(1j*th/2)])),("P",np.diag([1,np.exp(1j*th)]))]:
        A,l=gate_matrix(getattr(qubit,name)(th),1); res.append((name+str(round(th,2)),)+cmp(A,G)+(l,))
CZm=np.diag([1,1,1,-1])
for name in ["CZ","CZ_Heralded"]:
    A,l=gate_matrix(getattr(qubit,name)(),2); res.append((name,)+cmp(A,CZm)+(l,))
for name in ["CNOT","CNOT_Heralded"]:
    for t in (0,1):
        A,l=gate_matrix(getattr(qubit,name)(t),2); res.append((name+str(t),)+cmp(A,cnot(2,1-t,t))+(l,))
A,l=gate_matrix(qubit.CCZ(),3); res.append(("CCZ",)+cmp(A,np.diag([1]*7+[-1]))+(l,))
for t in (0,1,2):
    cs=[q for q in range(3) if q!=t]
    G=np.eye(8)-kron(*[P1 if q in cs else I2 for q in range(3)])+kron(*[P1 if q in cs else X for q in range(3)])
    A,l=gate_matrix(qubit.CCNOT(t),3); res.append(("CCNOT"+str(t),)+cmp(A,G)+(l,))
SW=np.array([[1,0,0,0],[0,0,1,0],[0,1,0,0],[0,0,0,1]])
A,l=gate_matrix(qubit.SWAP((0,1),(2,3)),2); res.append(("SWAP",)+cmp(A,SW)+(l,))
for r in res: print("%-14s s2=%.6f err=%.1e leak=%.1e"%r)
