import lightworks as lw, numpy as np
from lightworks import emulator as emu
from lightworks.qubit import qiskit_converter
from qiskit import QuantumCircuit
from qiskit.quantum_info import Operator
import itertools

def dual_rail(bits):  # bits[q] for qubit q -> state
    s=[]
    for b in bits: s += [1,0] if b==0 else [0,1]
    return lw.State(s)

def check(qc, aps):
    n=qc.num_qubits
    try:
        circ, ps = qiskit_converter(qc, allow_post_selection=aps)
    except Exception as e:
        return "refused: %s"%type(e).__name__
    U = Operator(qc).data  # little-endian: index = sum b_q 2^q
    sim = emu.Simulator(circ)
    basis = list(itertools.product([0,1], repeat=n))
    ins=[dual_rail(b) for b in basis]
    res = sim.simulate(ins)  # all outputs of n photons
    A = np.zeros((2**n,2**n),complex)
    outs = res.outputs
    leak=0
    for i,b in enumerate(basis):
        for j,o in enumerate(outs):
            a = res.array[i,j]
            # accepted?
            acc = True if ps is None else ps.validate(o)
            if not acc: continue
            # is it a qubit state?
            ol=o.s; bits=[]
            ok=True
            for q in range(n):
                pair=ol[2*q:2*q+2]
                if pair==[1,0]: bits.append(0)
                elif pair==[0,1]: bits.append(1)
                else: ok=False
            if not ok:
                leak=max(leak,abs(a)); continue
            col = sum(bb<<q for q,bb in enumerate(b))
            row = sum(bb<<q for q,bb in enumerate(bits))
            A[row,col]=a
    # compare A = s*U
    idx = np.unravel_index(np.argmax(abs(U)),U.shape)
    s = A[idx]/U[idx]
    err = np.abs(A - s*U).max()
    return dict(s2=abs(s)**2, err=err, leak=leak)

