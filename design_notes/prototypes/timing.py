import time, numpy as np, warnings
import lightworks as lw
from lightworks import emulator as emu, qubit
import matplotlib; matplotlib.use("Agg")
import matplotlib.pyplot as plt
def t(f, n=20):
    t0=time.perf_counter()
    for _ in range(n): f()
    return (time.perf_counter()-t0)/n*1e3
def build():
    c=lw.Circuit(4); c.bs(0); c.ps(1,0.3); c.loss(2,0.1); c.mode_swaps({0:2,2:0}); c.bs(1,3,0.2,convention="H")
    s=lw.Unitary(lw.random_unitary(3,seed=1)); s.herald(1,1)
    c.add(s,1); c.add(s,0,group=True)
    return c
print("build ms", t(build,100))
c=build()
print("U ms", t(lambda: c.U_full,100))
print("svg ms", t(lambda: lw.Display(c, display_type="svg"),20))
def mpl():
    lw.Display(c, display_type="mpl"); plt.close("all")
print("mpl ms", t(mpl,5))
print("sim ms", t(lambda: emu.Simulator(c).simulate(lw.State([1,0,1,0])),20))
print("sampler perm ms", t(lambda: emu.Sampler(c, lw.State([1,0,1,0])).probability_distribution,20))
print("sampler slos ms", t(lambda: emu.Sampler(c, lw.State([1,0,1,0]), backend="slos").probability_distribution,20))
src=emu.Source(purity=0.9,brightness=0.8,indistinguishability=0.7)
print("sampler src ms", t(lambda: emu.Sampler(c, lw.State([1,0,1,0]), source=src).probability_distribution,5))
from qiskit import QuantumCircuit
def conv():
    qc=QuantumCircuit(3); qc.h(0); qc.cx(0,2); qc.ccz(0,1,2)
    return lw.qubit.qiskit_converter(qc, True)
print("convert ms", t(conv,10))
cc,ps=conv()
print("converted n_modes", cc.n_modes, cc.heralds)
print("conv U ms", t(lambda: cc.U_full,10))
r=lw.interferometers.Reck()
u=lw.Unitary(lw.random_unitary(5,seed=2))
print("reck ms", t(lambda: r.map(u).U,10))
