"""E2 prototype: explicit-state BFS over a long-lived Sampler; differential oracle vs fresh object."""
import collections, hashlib, pickle, numpy as np, time
import lightworks as lw
from lightworks import emulator as emu
print(lw.__file__)
U1=lw.random_unitary(3,seed=1); U2=lw.random_unitary(3,seed=2)
PAR=lw.Parameter(0.3)
def mk_circuits():
    a=lw.Unitary(U1); a.herald(0,2)
    b=lw.Unitary(U1); b.herald(1,2)
    c=lw.Unitary(U2); c.herald(0,2)
    p=lw.Circuit(3); p.bs(0,reflectivity=PAR); p.bs(1); p.herald(0,2)
    return {"a":a,"b":b,"c":c,"p":p}
INPUTS={"10":lw.State([1,0]),"01":lw.State([0,1])}
def mk_source(k): return {"ideal":None,"dim":emu.Source(brightness=0.6),"ind":emu.Source(indistinguishability=0.5)}[k]
ALPH=[("circuit",k) for k in "abcp"]+[("param",v) for v in (0.3,0.8)]+[("input",k) for k in INPUTS]+[("source",k) for k in ("ideal","dim","ind")]+[("src_inplace",v) for v in (0.6,1.0)]+[("backend",k) for k in ("permanent","slos")]+[("read",)]
def apply(s, env, op):
    if op[0]=="circuit": s.circuit=env["circ"][op[1]]
    elif op[0]=="param": PAR.set(op[1])
    elif op[0]=="input": s.input_state=INPUTS[op[1]]
    elif op[0]=="source": s.source=mk_source(op[1])
    elif op[0]=="src_inplace": s.source.brightness=op[1]
    elif op[0]=="backend": s.backend=op[1]
    elif op[0]=="read": s.probability_distribution
def build(hist):
    PAR.set(0.3)
    env={"circ":mk_circuits()}
    s=emu.Sampler(env["circ"]["a"], INPUTS["10"])
    for op in hist: apply(s,env,op)
    return s,env
def canon(x):
    if isinstance(x,np.ndarray): return ("nd",x.shape,x.tobytes())
    if isinstance(x,dict): return tuple((canon(k),canon(v)) for k,v in x.items())
    if isinstance(x,(list,tuple)): return tuple(canon(i) for i in x)
    if isinstance(x,lw.State): return ("S",tuple(x.s))
    if isinstance(x,lw.Circuit): return ("C",x.n_modes,canon(x.heralds),canon(x.U_full))
    if isinstance(x,emu.Source): return ("Src",x.brightness,x.purity,x.indistinguishability,x.probability_threshold)
    if isinstance(x,emu.Detector): return ("Det",x.efficiency,x.p_dark,x.photon_counting)
    if isinstance(x,emu.Backend): return ("B",x.backend)
    if isinstance(x,(int,float,str,bool,type(None),complex,np.floating,np.integer)): return x
    raise TypeError(type(x))
def fingerprint(s): return hashlib.sha1(repr(canon(vars(s))).encode()).hexdigest()
def observe(s):
    try: d=s.probability_distribution; return ("ok",tuple(sorted((tuple(k.s),round(float(v),9)) for k,v in d.items())))
    except Exception as e: return ("raise",)
def fresh_obs(s):
    try:
        f=emu.Sampler(s.circuit, s.input_state, source=emu.Source(brightness=s.source.brightness,purity=s.source.purity,indistinguishability=s.source.indistinguishability), backend=s.backend.backend)
    except Exception: return ("raise",)
    return observe(f)
t0=time.time()
s,_=build(()); seen={fingerprint(s):()}; frontier=collections.deque([()]); trans=0; viol=[]
while frontier:
    hist=frontier.popleft()
    for op in ALPH:
        h=hist+(op,)
        try: s,env=build(h)
        except Exception as e: continue
        trans+=1
        fp=fingerprint(s)
        if fp in seen: continue
        seen[fp]=h
        o=observe(s)   # note: observing mutates cache; done on a throwaway replay
        s2,_=build(h); f=fresh_obs(s2)
        if o!=f: viol.append(h)
        frontier.append(h)
print("states",len(seen),"transitions",trans,"violations",len(viol),"max depth",max(len(h) for h in seen.values()),"t",round(time.time()-t0,1))
for v in viol[:3]: print(v)
