import lightworks as lw, numpy as np, warnings, time, itertools
from lightworks import emulator as emu, qubit
from lightworks.tomography import *
from lightworks.tomography import GateFidelity
from f89 import exact_dist, exp_proc
print(lw.__file__)
def dual(bits):
    s=[]
    for b in bits: s+= [1,0] if b==0 else [0,1]
    return lw.State(s)
def unitary_of(circ,n):
    sim=emu.Simulator(circ); basis=list(itertools.product([0,1],repeat=n))
    r=sim.simulate([dual(b) for b in basis],[dual(b) for b in basis]).array  # [in,out]
    V=r.T  # V[out,in]; big-endian qubit 0 = most significant
    return V/np.sqrt(abs(np.linalg.det(V))**(1/len(basis))) if False else V/np.linalg.norm(V[:,0])
def mk(n, ops):
    c=lw.Circuit(2*n)
    for g,m in ops: c.add(g,m)
    return c
cases=[("S.H ⊗ Ry ; CNOT ; T⊗Sadj",2,[(qubit.H(),0),(qubit.S(),0),(qubit.Ry(0.7),2),(qubit.CNOT(),0),(qubit.T(),0),(qubit.Sadj(),2)]),
       ("CNOT(0) ; Rx",2,[(qubit.Rx(0.9),2),(qubit.CNOT(0),0),(qubit.Rz(0.4),0)]),
       ("CZ_Heralded ; S",2,[(qubit.Ry(1.1),0),(qubit.CZ_Heralded(),0),(qubit.S(),2)])]
for name,n,ops in cases:
    c=mk(n,ops); V=unitary_of(c,n)
    ref=choi_from_unitary(V)
    t0=time.time(); li=LIProcessTomography(n,c,exp_proc); ch=li.process(); t1=time.time()
    print(name,"LI err",abs(ch-ref).max(),"fid",li.fidelity(ref),"t=%.1f"%(t1-t0))
    with warnings.catch_warnings():
        warnings.simplefilter("ignore")
        t0=time.time(); m=MLEProcessTomography(n,c,exp_proc); cm=m.process(); t1=time.time()
        print("   MLE fid",m.fidelity(ref),"mineig",np.linalg.eigvalsh(cm).min(),"t=%.1f"%(t1-t0))
        gf=GateFidelity(n,c,exp_proc); print("   GF self",gf.process(V), "GF vs CNOT", gf.process(np.array([[1,0,0,0],[0,1,0,0],[0,0,0,1],[0,0,1,0]])), (abs(np.trace(np.array([[1,0,0,0],[0,1,0,0],[0,0,0,1],[0,0,1,0]]).conj().T@V))**2+4)/20)
