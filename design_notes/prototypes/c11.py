import lightworks as lw, numpy as np
from lightworks import emulator as emu
U = lw.random_unitary(3, seed=3)
a = lw.Unitary(U); a.herald(0, 2)
b = lw.Unitary(U); b.herald(1, 2)
s = emu.Sampler(a, lw.State([1,0]))
d1 = dict(s.probability_distribution)
s.circuit = b
d2 = dict(s.probability_distribution)
fresh = dict(emu.Sampler(b, lw.State([1,0])).probability_distribution)
print("stale after herald change:", d2 == d1, "fresh equal:", {k:round(v,6) for k,v in d2.items()} == {k:round(v,6) for k,v in fresh.items()})
# in-place herald added after
c = lw.Unitary(U)
s = emu.Sampler(c, lw.State([1,0,0]))
s.probability_distribution
c.herald(0,2)
try:
    print(s.probability_distribution)
except Exception as e: print("raises", type(e).__name__, e)
try:
    print(emu.Sampler(c, lw.State([1,0,0])).probability_distribution)
except Exception as e: print("fresh raises", type(e).__name__, e)
# settings threshold
# quick sampler same
q = emu.QuickSampler(a, lw.State([1,0])); d1=dict(q.probability_distribution); q.circuit=b; d2=dict(q.probability_distribution)
print("QS stale:", d1==d2, dict(emu.QuickSampler(b, lw.State([1,0])).probability_distribution)==d2)
# source object mutated in place
src = emu.Source(brightness=0.5)
s = emu.Sampler(lw.Unitary(U), lw.State([1,0,0]), source=src); d1=dict(s.probability_distribution); src.brightness=1; d2=dict(s.probability_distribution); print("src inplace updated:", d1!=d2)
# analyzer error_rate sticky
an = emu.Analyzer(lw.Unitary(U))
r1 = an.analyze(lw.State([1,0,0]), expected={lw.State([1,0,0]): lw.State([1,0,0])})
r2 = an.analyze(lw.State([0,1,0]))
print("second result has error_rate:", hasattr(r2, "error_rate"), getattr(r2,"error_rate",None))
