import itertools, numpy as np, lightworks as lw
from lightworks import qubit
import lightworks.tomography.utils as tu
import lightworks.tomography.state_tomography as st
from lightworks.tomography import StateTomography, density_from_state
from c15 import exact_dist, statevec
base=lw.Circuit(2); base.add(qubit.Ry(0.7)); base.add(qubit.S())
ref=density_from_state(statevec(base,1))
seen_orders=set(); errs=[]
for perm in itertools.permutations(range(3)):
    def fake_set(it, perm=perm):
        items=sorted(dict.fromkeys(it)); return [items[i] for i in perm]
    tu.set=fake_set
    try:
        order=[]
        def exp(circuits):
            return [exact_dist(c, lw.State([1,0])) for c in circuits]
        t=StateTomography(1,base,exp); rho=t.process()
        seen_orders.add(tuple(tu._get_required_tomo_measurements(1)[0]))
        errs.append(abs(rho-ref).max())
    finally:
        del tu.set
print(len(seen_orders), seen_orders, max(errs))
