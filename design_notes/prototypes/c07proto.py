import numpy as np, itertools, math, collections
from unittest import mock
import lightworks as lw
from lightworks import emulator as emu
import lightworks.emulator.components.detector as detmod
import lightworks.emulator.simulation.sampler as sampmod

class Oracle:
    """scripted choice points; replay prefix, then option 0; records (n_options, weights)"""
    def __init__(self, prefix): self.prefix=list(prefix); self.trace=[]; self.weight=1.0
    def choose(self, weights, label):
        i=len(self.trace)
        k=self.prefix[i] if i<len(self.prefix) else 0
        self.trace.append((k,len(weights),label)); self.weight*=weights[k]; return k

def explore(run):
    """enumerate all choice sequences; yield (weight, outcome)"""
    stack=[[]]; n=0
    while stack:
        prefix=stack.pop()
        o=Oracle(prefix); out=run(o); n+=1
        for i in range(len(prefix), len(o.trace)):
            k,m,_=o.trace[i]
            for alt in range(1,m):
                stack.append([t[0] for t in o.trace[:i]]+[alt])
        if o.weight>0: yield o.weight,out,o.trace
    
def run_sample_N_inputs(sampler, N, eff, pdark, **kw):
    def run(o):
        class FakeRng:
            def choice(self, vals, p=None, size=None):
                p=list(p); tot=sum(p)
                idx=[o.choose([x/tot for x in p],"choice") for _ in range(size)]
                out=np.zeros(size,dtype=object)
                for j,i in enumerate(idx): out[j]=vals[i]
                return out
        def fake_random():
            # thresholds: eff (code: random() > eff -> lost), pdark (random() < pdark -> dark)
            cuts=sorted(set([0.0,eff,pdark,1.0])); cuts=[c for c in cuts if 0<=c<=1]
            ivs=[(a,b) for a,b in zip(cuts[:-1],cuts[1:]) if b>a]
            k=o.choose([b-a for a,b in ivs],"rand")
            a,b=ivs[k]; return (a+b)/2
        with mock.patch.object(np.random,"default_rng",lambda seed=None: FakeRng()), \
             mock.patch.object(detmod,"random",fake_random), mock.patch.object(detmod,"seed",lambda s:None):
            r=sampler.sample_N_inputs(N, seed=1, **kw)
        return tuple(sorted((tuple(k.s),v) for k,v in r.items()))
    d=collections.defaultdict(float); paths=0
    for w,out,tr in explore(run): d[out]+=w; paths+=1
    return d,paths

def ref_detect(state, eff, pdark, pc):
    """exact distribution of detector output for a given state"""
    dist={():1.0}
    for n in state:
        new=collections.defaultdict(float)
        for pre,p in dist.items():
            for k in range(n+1):   # detected
                pk=math.comb(n,k)*eff**k*(1-eff)**(n-k)
                for dk,pd in ((0,1-pdark),(1,pdark)):
                    if pk*pd==0: continue
                    c=k+dk
                    if not pc: c=min(c,1)
                    new[pre+(c,)]+=p*pk*pd
        dist=new
    return dist

U=lw.random_unitary(3,seed=4); c=lw.Unitary(U); c.herald(1,2)
eff,pd,pc=0.8,0.1,False
s=emu.Sampler(c, lw.State([1,1]), detector=emu.Detector(efficiency=eff,p_dark=pd,photon_counting=pc))
ps=lw.PostSelection(); ps.add(0,1)
d,paths=run_sample_N_inputs(s,1,eff,pd,post_select=ps,min_detection=1)
print("paths",paths,"total weight",sum(d.values()))
# reference
ref=collections.defaultdict(float)
for st,p in s.probability_distribution.items():
    for o,q in ref_detect(st.s,eff,pd,pc).items():
        if o[2]!=1: key=()      # herald fail -> nothing
        else:
            hs=o[:2]
            key=((hs,1),) if (hs[0]==1 and sum(hs)>=1) else ()
        ref[key]+=p*q
keys=set(d)|set(ref)
print(max(abs(d.get(k,0)-ref.get(k,0)) for k in keys), len(keys))
for k in sorted(keys): print(k, round(d.get(k,0),6), round(ref.get(k,0),6))
