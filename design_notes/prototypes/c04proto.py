import lightworks as lw, numpy as np, itertools, collections, time
from lightworks import emulator as emu
from c06 import ref_dist, fock_basis, amp
print(lw.__file__)
def family():
    out=[]
    for n in (2,3,4):
        for hers in ([],[(1,1,1)],[(0,0,0)],[(2,0,0)] if n<4 else [],[(1,0,n-1)],[(1,n-1,0),(0,1,1)] if n>2 else []):
            if hers==[] and False: continue
            for losses in ([],[(0,0.3)],[(1,0.0),(0,1.0)],[(n-1,0.45),(0,0.2)]):
                c=lw.Circuit(n); c.bs(0,reflectivity=0.37)
                if losses: c.loss(*losses[0])
                c.add(lw.Unitary(lw.random_unitary(n,seed=n+len(losses))))
                for l in losses[1:]: c.loss(*l)
                c.bs(n-2,n-1,reflectivity=0.61,convention="H")
                try:
                    for h in hers: c.herald(*h)
                except Exception: continue
                out.append((n,hers,losses,c))
    return out
bad=collections.Counter(); t0=time.time(); cnt=0
for n,hers,losses,c in family():
    hin=c.heralds["input"]; v=c.input_modes
    for nph in range(0,3):
        for s in fock_basis(v,nph):
            full=lw.sdk.utils.add_heralds_to_state(list(s),hin)
            if sum(full)>4: continue
            r=ref_dist(c.U_full,c.n_modes,full)
            nfull=len(list(fock_basis(c.U_full.shape[0],sum(full)))) if sum(full) else 1
            ds={}
            for be in ("permanent","slos"):
                d=emu.Sampler(c,lw.State(list(s)),backend=be).probability_distribution; cnt+=1
                ds[be]=d
                tot=sum(d.values())
                if abs(tot-1)>nfull*1e-9+1e-12: bad[(be,"norm")]+=1
                keys=set(tuple(k.s) for k in d)|set(r)
                err=max(abs(d.get(lw.State(list(k)),0)-r.get(k,0)) for k in keys)
                if err>nfull*1e-9+1e-12: bad[(be,"value")]+=1; print(n,hers,losses,s,be,err)
                if any(v_<0 for v_ in d.values()): bad[(be,"neg")]+=1
                if any(k.n_photons>sum(full) for k in d): bad[(be,"photons")]+=1
print(cnt,time.time()-t0,dict(bad))
