import lightworks as lw, numpy as np, warnings
from lightworks.tomography.process_tomography_mle import MLETomographyAlgorithm, TOMO_INPUTS
from lightworks.tomography.mappings import RHO_MAPPING, PAULI_MAPPING
from lightworks.tomography.utils import _get_tomo_measurements, choi_from_unitary, process_fidelity
np.set_printoptions(precision=3, suppress=True, linewidth=200)
def data_for(V):
    d={}
    for i in TOMO_INPUTS:
        rho = V@RHO_MAPPING[i]@V.conj().T
        for m in _get_tomo_measurements(1, remove_trivial=True):
            d[i,m] = np.real(np.trace(PAULI_MAPPING[m]@rho))
    return d
S = np.array([[1,0],[0,1j]])
alg = MLETomographyAlgorithm(1)
data = data_for(S)
n_vec = alg._n_vec_from_data(data)
choi = np.identity(4, dtype=complex)/2
print("cost0", alg._cost(choi,n_vec))
g = alg._gradient(choi, n_vec)
print("grad\n", g)
mod = alg._cptp_proj(choi - (1/(3/8))*g) - choi
print("mod\n", mod)
for a in [0.5,0.25,0.1]:
    print(a, alg._cost(choi+a*mod, n_vec))
th = 0.3*np.trace(mod@np.conj(alg._gradient(choi.T,n_vec)))
print("thresh", th)
# what does the true choi cost?
for name,C in [("ref",choi_from_unitary(S)),("refT",choi_from_unitary(S).T),("choi(V^T)",choi_from_unitary(S.T)),("choi(V^T)^T",choi_from_unitary(S.T).T)]:
    print(name, alg._cost(C.astype(complex), n_vec))
