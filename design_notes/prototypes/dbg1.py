import numpy as np, itertools
import lightworks as lw
from lightworks import emulator as emu
from ref import *
from f345 import mk_sub
np.set_printoptions(precision=3, suppress=True, linewidth=200)
def run(n,k1,g1,m1,k2,g2,m2):
    s1,r1=mk_sub(k1); s2,r2=mk_sub(k2)
    P=lw.Circuit(n); R=Ref(n)
    P.add(s1,m1,group=g1); R.add(r1,m1)
    print("after 1: n_modes",P.n_modes,"heralds",P.heralds,"internal",P._internal_modes)
    P.add(s2,m2,group=g2); R.add(r2,m2)
    print("after 2: n_modes",P.n_modes,"heralds",P.heralds,"internal",P._internal_modes)
    for s in P._get_circuit_spec(): print("   ",s)
    Mi,anci,anco=canon_impl(P)
    print(anci, anco, R.anc)
    print(abs(Mi)); print(abs(R.M))
    print(relevant_equal(Mi,anci,R.M,R.anc))
run(4,"h3a",True,0,"h3b",True,0)
