import lightworks as lw, collections, itertools, numpy as np
from lightworks.sdk.utils.exceptions import *
VALS=[0,0.3,1,1.5,-0.2,"x"]; BNDS=[None,0,0.4,1,2]
def snap(p): return (p.get(),p.min_bound,p.max_bound)
def ok(v,lo,hi):
    if isinstance(v,str): return lo is None and hi is None
    return (lo is None or v>=lo) and (hi is None or v<=hi)
ops=[("set",v) for v in VALS]+[("min",b) for b in BNDS]+[("max",b) for b in BNDS]
def apply(p,op):
    if op[0]=="set": p.set(op[1])
    elif op[0]=="min": p.min_bound=op[1]
    else: p.max_bound=op[1]
def build(h):
    p=lw.Parameter(0.3)
    for op in h:
        try: apply(p,op)
        except (ParameterValueError,ParameterBoundsError): pass
    return p
seen={snap(build(())):()}; fr=collections.deque([()]); viol=[]; trans=0
while fr:
    h=fr.popleft()
    for op in ops:
        p=build(h); before=snap(p); trans+=1
        try: apply(p,op); raised=None
        except (ParameterValueError,ParameterBoundsError) as e: raised=type(e).__name__
        except Exception as e: raised="OTHER:"+type(e).__name__; viol.append((h,op,raised))
        after=snap(p)
        if raised and after!=before: viol.append((h,op,"rejected but changed",before,after))
        if not ok(*after): viol.append((h,op,"out of bounds",after))
        # circuit reads
        c=lw.Circuit(2); c.bs(0,reflectivity=p) if not raised or True else None
        if after not in seen: seen[after]=h+(op,); fr.append(h+(op,))
print("states",len(seen),"transitions",trans,"violations",len(viol))
for v in viol[:8]: print(v)
