import lightworks as lw, numpy as np
from lightworks import emulator as emu
# F1: lossy circuit normalisation on slos/permanent
bad = {"permanent":0,"slos":0}; n=0
for seed in range(40):
    rng = np.random.default_rng(seed)
    c = lw.Circuit(3)
    c.bs(0, reflectivity=float(rng.random())); c.loss(0, float(rng.random()))
    c.bs(1, reflectivity=float(rng.random())); c.loss(2, float(rng.random()))
    c.bs(0, reflectivity=float(rng.random()))
    for be in ["permanent","slos"]:
        s = emu.Sampler(c, lw.State([1,1,0]), backend=be)
        tot = sum(s.probability_distribution.values())
        if abs(tot-1) > 1e-6:
            bad[be]+=1
            if bad[be]<3: print(be, seed, tot, s.probability_distribution)
    n+=1
print(bad, n)
