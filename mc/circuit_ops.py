"""Operation alphabet shared by the circuit-construction properties (C01, C02,
C08, C09, C19): every op is a JSON-able tuple that is applied to a real
lightworks Circuit and, in lock-step, to a RefCircuit.
"""
from __future__ import annotations

import itertools
import math

import numpy as np

import lightworks as lw

from . import kernel
from .ref_circuit import RefCircuit

REJECT_TYPES = (lw.ModeRangeError, ValueError, TypeError)


class Env:
    """Seed-dependent generic values + sub-circuit library (rebuilt per use)."""

    def __init__(self, seed=0):
        self.seed = seed
        r = kernel.generic_reals(seed, 2, 0.0, 1.0, avoid=(0.5,))
        self.R = [0, r[0], 1]                      # reflectivity
        self.R2 = r[1]
        l = kernel.generic_reals(seed + 1, 2, 0.0, 1.0, avoid=(0.5,))
        self.L = [0, l[0], 1]                      # loss
        self.L2 = l[1]
        p = kernel.generic_reals(seed + 2, 3, 0.2, 3.0, avoid=(math.pi / 2, math.pi))
        self.PH = [p[0], -p[1], 2 * math.pi + p[2]]
        self.U = {k: kernel.haar(k, seed + 10 + k) for k in (1, 2, 3, 4, 5)}
        self.Usub = {i: kernel.haar(k, seed + 100 + i)
                     for i, k in enumerate((3, 3, 4, 4, 3, 3, 2, 3, 4))}


# ---------------------------------------------------------------------------
# alphabets
# ---------------------------------------------------------------------------
def primitive_alphabet(n, env, level="full"):
    """Legal primitive ops on n modes. level: 'full' | 'reduced'."""
    ops = []
    full = level == "full"
    rs = env.R if full else [env.R[1]]
    for a, b in itertools.permutations(range(n), 2):
        for cv in ("Rx", "H"):
            for r in rs:
                ops.append(("bs", a, b, r, cv, 0))
    if n >= 2:
        ops.append(("bs", 0, n - 1, env.R2, "Rx", env.L2))      # bs with loss: two loss elements
        ops.append(("bs", n - 1, 0, env.R2, "H", env.L2))
        ops.append(("bsdef", 0, None))                          # mode_2 defaulted, r defaulted
        if n >= 3:
            ops.append(("bsdef", 1, env.R2))
    for m in range(n):
        for ph in (env.PH if full else env.PH[:1]):
            ops.append(("ps", m, ph, 0))
        if full or m == 0:
            ops.append(("ps", m, env.PH[0], env.L2))            # ps with loss
        for l in (env.L if full else [env.L[1]]):
            ops.append(("loss", m, l))
    for k in range(2, n + 1):
        for sub in itertools.combinations(range(n), k):
            perms = [p for p in itertools.permutations(sub) if p != sub]
            if not full:
                # one transposition per pair and one full cycle per subset
                perms = [p for p in perms
                         if (k == 2) or all(p[i] == sub[(i + 1) % k] for i in range(k))]
            if k == 4 and full:
                # all 2-cycles come from k=2; keep derangements + one with a fixed point
                perms = [p for p in perms if all(x != y for x, y in zip(p, sub))]
            for p in perms:
                ops.append(("sw", tuple(zip(sub, p))))
    if n >= 3:
        ops.append(("sw", ((0, 0), (1, 2), (2, 1))))            # complete dict with a fixed point
    ops.append(("sw", ()))                                      # the empty dictionary: nothing moves
    ops.append(("psnp", n - 1, "int64", 2))                     # a phase that is a numpy integer (float32: DESIGN 6)
    if n >= 2:
        ops.append(("blk", n - 2))                              # a grouped block: bs, barrier, ps (components after a barrier)
    for k in (2, 3):
        if k <= n:
            for m in range(0, n - k + 1):
                for g in ((False, True) if full else (False,)):
                    ops.append(("uni", k, m, g))
    ops.append(("uni", n, 0, False))
    ops.append(("bar", None))
    ops.append(("bar", (n - 1,)))
    if full:
        ops.append(("plus_self",))
        ops.append(("plus_lib",))
        ops.append(("rplus_lib",))
    return ops


def illegal_alphabet(n, env):
    """Calls that must be refused (deviations)."""
    ops = [
        ("bs", 0, 0, 0.5, "Rx", 0), ("bs", 0, n, 0.5, "Rx", 0), ("bs", -1, 0, 0.5, "Rx", 0),
        ("bs", 0, n - 1 if n > 1 else 1, 1.5, "Rx", 0),
        ("bs", 0, n - 1 if n > 1 else 1, -0.1, "H", 0),
        ("bs", 0, n - 1 if n > 1 else 1, 0.5, "Rx", 1.2),
        ("bs", 0, n - 1 if n > 1 else 1, 0.5, "Rx", -0.2),
        ("bs", 0, n - 1 if n > 1 else 1, 0.5, "Q", 0),
        ("bsdef", n - 1, None),
        ("ps", n, 0.3, 0), ("ps", -1, 0.3, 0), ("ps", 0, 0.3, 1.5), ("ps", 0.5, 0.3, 0),
        ("loss", 0, 1.01), ("loss", 0, -0.01), ("loss", n, 0.2), ("loss", 0, True),
        ("sw", ((0, n - 1 if n > 1 else 1),)),              # incomplete
        ("sw", ((0, n), (n, 0))),                              # out of range
        ("uni", n + 1, 0, False), ("uni", 2, n - 1, False), ("uni", 2, -1, True),
        ("uni_bad", 2, 0),                                    # not unitary
        ("bar", (n,)),
    ]
    if n >= 2:
        ops.append(("sw", ((0, 1), (1, 1))))                 # not a permutation
    return ops


# ---------------------------------------------------------------------------
# application on both sides
# ---------------------------------------------------------------------------
def static_legal(op, n, env):
    """Legality for circuits without ancillas/heralds, from the documentation."""
    k = op[0]
    def m_ok(m):
        return isinstance(m, int) and not isinstance(m, bool) and 0 <= m < n
    def l_ok(l):
        return not isinstance(l, bool) and 0 <= l <= 1
    if k == "bs":
        _, a, b, r, cv, l = op
        return m_ok(a) and m_ok(b) and a != b and 0 <= r <= 1 and cv in ("Rx", "H") and l_ok(l)
    if k == "bsdef":
        return m_ok(op[1]) and m_ok(op[1] + 1)
    if k == "ps":
        return m_ok(op[1]) and l_ok(op[3])
    if k == "psnp":
        return m_ok(op[1])
    if k == "loss":
        return m_ok(op[1]) and l_ok(op[2])
    if k == "sw":
        d = dict(op[1])
        return (len(d) == len(op[1]) and all(m_ok(x) for x in d) and all(m_ok(x) for x in d.values())
                and sorted(d) == sorted(d.values()))
    if k == "uni":
        return op[1] in env.U and isinstance(op[2], int) and 0 <= op[2] and op[2] + op[1] <= n
    if k == "uni_bad":
        return False
    if k == "blk":
        return isinstance(op[1], int) and 0 <= op[1] and op[1] + 2 <= n
    if k == "bar":
        return op[1] is None or all(m_ok(m) for m in op[1])
    if k in ("plus_self", "plus_lib", "rplus_lib"):
        return True
    raise KeyError(op)


def lib_circuit(n, env):
    """A fixed n-mode circuit used by the `+` ops (impl, ref)."""
    c, r = lw.Circuit(n), RefCircuit(n)
    if n >= 2:
        c.bs(0, n - 1, reflectivity=env.R2, convention="H"); r.bs(0, n - 1, env.R2, "H")
    c.ps(0, env.PH[1]); r.ps(0, env.PH[1])
    c.loss(n - 1, env.L2); r.loss(n - 1, env.L2)
    return c, r


def apply_impl(c, op, env):
    """Apply op to the real circuit; returns the (possibly new) circuit."""
    k = op[0]
    if k == "bs":
        _, a, b, r, cv, l = op
        c.bs(a, b, reflectivity=r, convention=cv, loss=l)
    elif k == "bsdef":
        if op[2] is None:
            c.bs(op[1])
        else:
            c.bs(op[1], reflectivity=op[2])
    elif k == "ps":
        c.ps(op[1], op[2], loss=op[3])
    elif k == "psnp":                # the phase as a numpy scalar of the named type (element of an integer / float32 array)
        v = getattr(np, op[2])(op[3])
        c.ps(op[1], lw.Parameter(v) if len(op) > 4 and op[4] else v)
    elif k == "loss":
        c.loss(op[1], op[2])
    elif k == "sw":
        d = dict(op[1])
        c.mode_swaps(d)
        for key in list(d):          # poison the caller-owned dict: the circuit must hold its own copy
            d[key] = key
        d[99] = 98
    elif k == "uni":
        u = env.U[op[1]] if op[1] in env.U else kernel.haar(op[1], 999)
        arr = u.copy()
        sub = lw.Unitary(arr)
        arr[:] = 0                   # poison the caller-owned array (before and after the add)
        c.add(sub, op[2], group=op[3])
        sub.ps(0, 1.234)             # later edit of the added object must not reach the parent
        arr[:] = 7
    elif k == "blk":
        sub = lw.Circuit(2)
        sub.bs(0, reflectivity=env.R2); sub.barrier([0, 1]); sub.ps(1, env.PH[2]); sub.bs(1, 0, reflectivity=env.R[1], convention="H")
        c.add(sub, op[1], group=True, name="block")
    elif k == "uni_bad":
        m = np.array([[1, 0.2], [0, 1]], dtype=complex)
        c.add(lw.Unitary(m), op[2])
    elif k == "bar":
        if op[1] is None:
            c.barrier()
        else:
            ms = list(op[1])
            c.barrier(ms)
            ms.append(0); ms[0] = 99
    elif k == "plus_self":
        c = c + c
    elif k == "plus_lib":
        c = c + lib_circuit(c.n_modes, env)[0]
    elif k == "rplus_lib":
        c = lib_circuit(c.n_modes, env)[0] + c
    else:
        raise KeyError(op)
    return c


def apply_ref(r, op, env):
    k = op[0]
    if k == "bs":
        _, a, b, rf, cv, l = op
        r.bs(a, b, rf, cv)
        if l > 0:
            r.loss(a, l); r.loss(b, l)
    elif k == "bsdef":
        r.bs(op[1], op[1] + 1, 0.5 if op[2] is None else op[2], "Rx")
    elif k == "ps":
        r.ps(op[1], op[2])
        if op[3] > 0:
            r.loss(op[1], op[3])
    elif k == "psnp":
        r.ps(op[1], float(getattr(np, op[2])(op[3])))
    elif k == "loss":
        r.loss(op[1], op[2])
    elif k == "sw":
        r.swaps(dict(op[1]))
    elif k == "uni":
        r.unitary(op[2], env.U[op[1]])
    elif k == "blk":
        m = op[1]
        r.bs(m, m + 1, env.R2); r.ps(m + 1, env.PH[2]); r.bs(m + 1, m, env.R[1], "H")
    elif k == "bar":
        pass
    elif k == "plus_self":
        m, nl = r.M.copy(), r.n_loss
        r.M = m @ r.M
        r.n_loss += nl
    elif k == "plus_lib":
        lr = lib_circuit(r.c, env)[1]
        r.M = lr.M @ r.M
        r.n_loss += lr.n_loss
    elif k == "rplus_lib":
        lr = lib_circuit(r.c, env)[1]
        r.M = r.M @ lr.M
        r.n_loss += lr.n_loss
    else:
        raise KeyError(op)
    return r


# ---------------------------------------------------------------------------
# observable fingerprints of real circuits
# ---------------------------------------------------------------------------
def observable(c):
    """Everything the API lets a user observe about a circuit's transformation."""
    try:
        uf = c.U_full
        u = ("ok", uf.shape, np.round(uf, 9).tobytes())
    except lw.CircuitCompilationError as e:
        u = ("compile_error",)
    return (c.n_modes, tuple(c.heralds["input"].items()), tuple(c.heralds["output"].items()),
            c.input_modes, u)


def spec_struct(spec):
    """Deep structural form of a circuit spec (component kinds + fields)."""
    out = []
    for s in spec:
        name = type(s).__name__
        if name == "Group":
            out.append(("Group", s.name, s.mode_1, s.mode_2,
                        tuple(s.heralds["input"].items()), tuple(s.heralds["output"].items()),
                        spec_struct(s.circuit_spec)))
        else:
            vals = []
            for f, v in zip(s.fields(), s.values()):
                if isinstance(v, np.ndarray):
                    v = ("nd", v.shape, np.round(v, 9).tobytes())
                elif isinstance(v, lw.Parameter):
                    v = ("P", repr(v.get()), repr(v.min_bound), repr(v.max_bound), v.label)
                elif isinstance(v, dict):
                    v = tuple(v.items())
                elif isinstance(v, list):
                    v = tuple(v)
                vals.append((f, v))
            out.append((name, tuple(vals)))
    return tuple(out)


def full_fingerprint(c):
    """Observable + hidden state of a circuit (used where 'nothing changed' is claimed)."""
    return (observable(c), tuple(c._internal_modes),
            tuple(c._external_heralds["input"].items()),
            tuple(c._external_heralds["output"].items()),
            spec_struct(c._get_circuit_spec()))


# ---------------------------------------------------------------------------
# recipes: JSON-able descriptions of whole circuits (used by the emulator checks)
# ---------------------------------------------------------------------------
def build(recipe, env):
    """recipe = {"n": n, "ops": [...]} -> (real circuit, RefCircuit)."""
    from .props.c02 import make_sub
    n = recipe["n"]
    c, r = lw.Circuit(n), RefCircuit(n)
    for op in recipe["ops"]:
        op = tuple(op)
        if op[0] == "her":
            if len(op) > 4:                        # mode numbers given as numpy integers
                c.herald(op[1], np.int64(op[2]), np.int32(op[3]))
            else:
                c.herald(op[1], op[2], op[3])
            r.herald(op[1], op[2], op[3])
        elif op[0] == "her1":                      # single-mode form: output defaults to the input mode
            c.herald(op[1], op[2]); r.herald(op[1], op[2], op[2])
        elif op[0] == "add":
            s, sr = make_sub(op[1], env)
            c.add(s, op[2], group=op[3]); r.add(sr, op[2])
        else:
            if op[0] == "sw":
                op = ("sw", tuple(tuple(p) for p in op[1]))
            c = apply_impl(c, op, env)
            apply_ref(r, op, env)
    return c, r


def emulator_family(env, tier="quick"):
    """Circuits crossing n x loss placement x herald layout, as recipes."""
    fam = []
    g, g2 = env.L[1], env.L2
    for n in ((2, 3, 4) if tier == "quick" else (2, 3, 4, 5)):
        uni = ("uni", n, 0, False)
        bases = {
            "U": [uni],
            "U,L": [uni, ("loss", 0, g), ("bs", 0, n - 1, env.R[1], "H", 0)],
            "L,U,L": [("loss", n - 1, g2), uni, ("loss", 0, g)],
            "bsL,U": [("bs", 0, n - 1, env.R2, "Rx", g2), uni],
            "U,L0,L1": [uni, ("loss", 0, 0), ("loss", n - 1, 1), ("bs", n - 1, 0, env.R[1], "Rx", 0)],
        }
        mid = n // 2
        heralds = {
            "none": [],
            "h0": [("her", 0, mid, mid)],
            "h1": [("her", 1, mid, mid)],
            "h2": [("her", 2, n - 1, n - 1)],
            "io": [("her", 1, 0, n - 1, "np")],
        }
        if n >= 3:
            heralds["two_desc"] = [("her", 1, n - 1, 0), ("her", 0, 0, 1)]
            heralds["two_ph"] = [("her", 1, 1, 2), ("her", 1, 0, 0)]
        for bn, bops in bases.items():
            for hn, hops in heralds.items():
                fam.append({"name": "n%d/%s/%s" % (n, bn, hn), "n": n, "ops": bops + hops})
        # nearly-but-not-exactly trivial couplings (tiny non-zero matrix elements), lossless and lossy
        eps = 5e-10
        fam.append({"name": "n%d/near_boundary" % n, "n": n,
                    "ops": [("bs", 0, n - 1, env.R[1], "Rx", 0), ("ps", 0, env.PH[0], 0), ("bs", n - 1, 0, 1 - eps, "Rx", 0),
                            ("bs", 0, n - 1, eps, "H", 0)] + ([("bs", 1, 0, 1 - eps, "Rx", 0)] if n > 2 else [])})
        fam.append({"name": "n%d/near_boundary_lossy" % n, "n": n,
                    "ops": [("bs", 0, n - 1, env.R2, "Rx", 0), ("loss", 0, eps), ("bs", n - 1, 0, 1 - eps, "Rx", 0),
                            ("loss", n - 1, 1 - eps), ("bs", 0, n - 1, env.R[1], "H", 0)]})
        if n >= 3:
            # a tiny matrix element (|u|^2 just below the 1e-9 truncation) that interferes IN PHASE with an order-one
            # amplitude: dropping it moves a probability by ~1e-5
            fam.append({"name": "n%d/near_boundary_inphase" % n, "n": n,
                        "ops": [("bs", 0, 2, 1 - 9e-10, "Rx", 0), ("ps", 2, math.pi / 2, 0), ("bs", 0, 1, 0.5, "Rx", 0),
                                ("bs", 1, 2, 0.5, "Rx", 0)]})
        # pure re-routing: the full unitary is a phased permutation matrix (one non-zero entry per row)
        cyc = tuple((m, (m + 1) % n) for m in range(n))
        fam.append({"name": "n%d/perm" % n, "n": n,
                    "ops": [("ps", 0, env.PH[0], 0), ("sw", cyc), ("ps", n - 1, env.PH[1], 0)]})
        fam.append({"name": "n%d/perm_her" % n, "n": n,
                    "ops": [("sw", cyc), ("ps", 0, env.PH[2], 0), ("her", 1, 0, 1 % n)]})
        # block-diagonal: the last mode only carries a phase (decoupled from the rest); with a lossy spectator too
        fam.append({"name": "n%d/perm_decoupled" % n, "n": n,
                    "ops": [("bs", 0, 1, env.R[1], "Rx", 0), ("ps", n - 1, env.PH[1], 0), ("ps", 0, env.PH[0], 0)]
                           + ([("bs", 1, 0, env.R2, "H", 0)] if n > 2 else [("ps", 1, env.PH[2], 0)])})
        if n >= 3:
            fam.append({"name": "n%d/perm_decoupled_lossy" % n, "n": n,
                        "ops": [("bs", 0, 1, env.R2, "Rx", 0), ("ps", n - 1, env.PH[2], env.L2), ("ps", n - 1, env.PH[0], 0)]})
        # internal ancillas from heralded sub-circuits (+ an external herald next to them)
        fam.append({"name": "n%d/sub_h3mid" % n, "n": n,
                    "ops": [("add", "h3mid", 0, False), ("bs", 0, n - 1, env.R[1], "Rx", 0)]})
        fam.append({"name": "n%d/sub_h3io+her1" % n, "n": n,
                    "ops": [("add", "h3io", 0, False), ("bs", 0, n - 1, env.R2, "H", 0), ("her1", 1, n - 1)]})
        fam.append({"name": "n%d/sub_lossy+her" % n, "n": n,
                    "ops": [("bs", 0, 1, env.R2, "H", 0), ("add", "lossy", n - 2, False),
                            ("loss", 0, g), ("her", 1, 0, 1)]})
        if n >= 3:
            fam.append({"name": "n%d/crossher+sub" % n, "n": n,
                        "ops": [uni, ("her", 2, 0, n - 1), ("her", 0, n - 1, 0), ("add", "h3mid", 0, False),
                                ("ps", 0, env.PH[1], 0)]})
            fam.append({"name": "n%d/sub_h4desc" % n, "n": n,
                        "ops": [uni, ("add", "h4desc", 1, False), ("ps", 0, env.PH[0], 0)]})
    if tier == "quick":
        # keep every n=2,3 circuit; thin n=4 to one loss placement per herald layout + subs
        fam = [f for f in fam if f["n"] < 4 or "sub" in f["name"] or "/U,L/" in f["name"]
               or f["name"].endswith("/none") or "near_boundary" in f["name"] or "/perm" in f["name"]]
    return fam


def herald_layout_family(env, tier="quick"):
    """Every herald layout on a Haar unitary of 3 modes (4 in thorough): every ordered choice of <= 2 input modes x every
    ordered choice of output modes x photon numbers {0,1,2}^k, i.e. every declaration order and every in/out pairing;
    plus every mode heralded (no visible mode left) on 2 and 3 modes."""
    import itertools
    fam = []
    g = env.L[1]
    sizes = (3,) if tier == "quick" else (3, 4)
    for n in sizes:
        uni = ("uni", n, 0, False)
        bases = {"U": [uni], "U,L": [uni, ("loss", 0, g), ("bs", 0, n - 1, env.R[1], "H", 0)]}
        for k in (1, 2):
            for ins in itertools.permutations(range(n), k):
                for outs in itertools.permutations(range(n), k):
                    for ph in itertools.product((0, 1, 2), repeat=k):
                        if k == 2 and ph[0] == ph[1] and (ins[0] > ins[1]):
                            continue        # equal photon numbers: the mirrored declaration order is the same layout
                        for bn, bops in bases.items():
                            if bn == "U,L" and (tier == "quick" or n == 4) and not (k == 2 and ph[0] != ph[1]):
                                continue
                            hops = [("her", ph[j], ins[j], outs[j]) for j in range(k)]
                            fam.append({"name": "n%d/%s/lay:%s>%s:%s" % (n, bn, ins, outs, ph), "n": n, "ops": bops + hops})
    for n in (2, 3):            # no visible mode left
        uni = ("uni", n, 0, False)
        for outs in itertools.permutations(range(n)):
            for ins in itertools.permutations(range(n)):
                for ph in ((1, 0, 2), (0, 1, 1), (2, 1, 0)):
                    hops = [("her", ph[j], ins[j], outs[j]) for j in range(n)]
                    fam.append({"name": "n%d/U/all:%s>%s:%s" % (n, ins, outs, ph[:n]), "n": n, "ops": [uni] + hops})
    return fam


def visible_inputs(c, max_photons):
    from . import ref_fock
    return ref_fock.basis_upto(c.input_modes, max_photons)


# ---------------------------------------------------------------------------
# rich construction alphabet (C08, C09, C19): legality decided by the real code,
# a refused call is simply skipped (its own correctness is C01/C02/C08 business)
# ---------------------------------------------------------------------------
def rich_alphabet(n, env, subs=("bs2", "h3mid", "h3io", "h4desc", "lossy", "grp", "bar2")):
    o = []
    for nm in subs:
        for m in range(0, n - 1):
            for g in (False, True):
                o.append(("add", nm, m, g))
    o += [("bs", 0, 1, env.R2, "Rx", 0), ("bs", 0, n - 1, env.R[1], "H", 0), ("bs", n - 1, 0, env.R[1], "H", 0),
          ("bs", n - 1, 1, env.R2, "Rx", 0), ("bs", 1, n - 1, env.R2, "Rx", env.L2),
          ("ps", n - 1, env.PH[0], 0), ("ps", 0, env.PH[1], env.L2), ("loss", 1, env.L[1]),
          ("sw", ((0, n - 1), (n - 1, 0))), ("sw", ((0, 1), (1, 2), (2, 0))), ("sw", ((1, 2), (2, 1))),
          ("uni", 2, 1, False), ("uni", 3, 0, True), ("bar", None), ("bar", (1,)), ("bar", ()), ("bar", (n - 1,)), ("bar", (0, n)),
          ("add", "empty2", 1, True), ("add", "empty2", 0, False),
          ("her", 1, 1, n - 1), ("her", 0, 0, 0), ("her", 2, n - 1, 1),
          ("bsP", 0, 2), ("psP", 1, True), ("psP", 0, False), ("lossP", n - 1), ("bslossP", 1, 0),
          ("addgP", 0), ("addgP", n - 2), ("lossP0", 1)]
    return o


def construct(n, prog, env):
    """Build the circuit of a program; refused calls are skipped. Returns
    (circuit, params, n_applied)."""
    from .props.c02 import make_sub
    c = lw.Circuit(n)
    params = []
    applied = 0
    subs = {}                 # one object per sub-circuit name: adding it again re-uses the same object
    for op in prog:
        op = tuple(op)
        k = op[0]
        try:
            if k == "add":
                if op[1] not in subs:
                    subs[op[1]] = make_sub(op[1], env)[0]
                c.add(subs[op[1]], op[2], group=op[3])
            elif k == "her":
                c.herald(op[1], op[2], op[3])
            elif k == "bsP":
                p = lw.Parameter(env.R2, label="r%d" % len(params)); params.append(p)
                c.bs(op[1], op[2], reflectivity=p)
            elif k == "psP":
                p = lw.Parameter(op[3] if len(op) > 3 else env.PH[0], label=("phi%d" % len(params)) if op[2] else None)
                params.append(p)
                c.ps(op[1], p)
            elif k == "lossP":
                p = lw.Parameter(env.L2, bounds=[0, 1], label="l%d" % len(params)); params.append(p)
                c.loss(op[1], p)
            elif k == "addgP":        # a grouped sub-circuit that holds a Parameter
                p = lw.Parameter(env.R[1], label="g%d" % len(params)); params.append(p)
                sp = lw.Circuit(2); sp.bs(0, reflectivity=p); sp.ps(1, env.PH[0])
                c.add(sp, op[1], group=True)
            elif k == "lossP0":       # a loss Parameter whose current value is exactly 0 (still one loss mode)
                p = lw.Parameter(0, label="z%d" % len(params)); params.append(p)
                c.ps(op[1], env.PH[1], loss=p)
            elif k == "bslossP":
                p = lw.Parameter(env.L[1]); params.append(p)
                c.bs(op[1], op[2], loss=p)
            else:
                if k == "sw":
                    op = ("sw", tuple(tuple(x) for x in op[1]))
                c = apply_impl(c, op, env)
            applied += 1
        except REJECT_TYPES:
            if k.endswith("P") or k == "lossP0":
                params.pop()
    return c, params, applied
