"""RefFock: textbook boson-sampling amplitudes. numpy only, no lightworks."""
from __future__ import annotations

import itertools
import math
from functools import lru_cache

import numpy as np


try:
    from thewalrus import perm as _walrus
except Exception:  # noqa: BLE001
    _walrus = None


def perm_ryser(a):
    n = a.shape[0]
    tot = 0j
    for mask in range(1, 1 << n):
        cols = [j for j in range(n) if mask >> j & 1]
        rs = a[:, cols].sum(axis=1)
        tot += (-1) ** (n - len(cols)) * np.prod(rs)
    return complex(tot)


def perm_naive(a: np.ndarray) -> complex:
    """Permanent as the plain sum over permutations (definition)."""
    n = a.shape[0]
    if n == 0:
        return 1.0 + 0j
    tot = 0j
    for p in itertools.permutations(range(n)):
        t = 1 + 0j
        for i in range(n):
            t *= a[i, p[i]]
        tot += t
    return tot


def perm(a: np.ndarray) -> complex:
    """Permanent by Ryser's formula (cross-checked against perm_naive in the
    self-test); used because it is 2^n instead of n!."""
    n = a.shape[0]
    if n == 0:
        return 1.0 + 0j
    if n == 1:
        return complex(a[0, 0])
    if n == 2:
        return complex(a[0, 0] * a[1, 1] + a[0, 1] * a[1, 0])
    if n >= 5 and _walrus is not None:
        # third-party accelerator for the large permanents of the qubit checks; cross-checked
        # against Ryser and the definition in the self-test; not part of the library under test
        return complex(_walrus(np.ascontiguousarray(a, dtype=complex)))
    tot = 0j
    for mask in range(1, 1 << n):
        cols = [j for j in range(n) if mask >> j & 1]
        rs = a[:, cols].sum(axis=1)
        tot += (-1) ** (n - len(cols)) * np.prod(rs)
    return complex(tot)


def amp(U: np.ndarray, ins, outs) -> complex:
    """<outs| U |ins> for Fock occupations over all modes of U."""
    if sum(ins) != sum(outs):
        return 0j
    rows = [i for i, n in enumerate(outs) for _ in range(n)]
    cols = [i for i, n in enumerate(ins) for _ in range(n)]
    sub = U[np.ix_(rows, cols)] if rows else np.zeros((0, 0))
    norm = math.sqrt(math.prod(math.factorial(n) for n in ins)
                     * math.prod(math.factorial(n) for n in outs))
    return perm(sub) / norm


@lru_cache(maxsize=None)
def basis(modes: int, photons: int):
    """All occupation tuples of `photons` in `modes` (lexicographic)."""
    if modes == 0:
        return ((),) if photons == 0 else ()
    out = []
    for first in range(photons, -1, -1):
        for rest in basis(modes - 1, photons - first):
            out.append((first,) + rest)
    return tuple(out)


def basis_upto(modes: int, photons: int):
    out = []
    for n in range(photons + 1):
        out.extend(basis(modes, n))
    return out


def distribution(U_full: np.ndarray, in_full, keep: int):
    """Exact output distribution over the first `keep` modes: |amp|^2 over the
    complete Fock basis of all modes, marginalised over the rest (loss modes).
    Returns ({pattern: prob}, {pattern: number of full states folded in})."""
    n = sum(in_full)
    N = U_full.shape[0]
    dist, fold = {}, {}
    for o in basis(N, n):
        p = abs(amp(U_full, in_full, o)) ** 2
        k = o[:keep]
        dist[k] = dist.get(k, 0.0) + p
        fold[k] = fold.get(k, 0) + 1
    return dist, fold


def evolve_poly(U: np.ndarray, ins):
    """Independent evolution: expand prod_i (sum_j U[j,i] a_j^dagger)^{n_i}|0>
    term by term. Returns {occupation: amplitude}. Used only to cross-check
    amp() (a different algorithm for the same definition)."""
    N = U.shape[0]
    state = {tuple([0] * N): 1 + 0j}
    for i, n in enumerate(ins):
        for _ in range(n):
            new = {}
            for occ, a in state.items():
                for j in range(N):
                    if U[j, i] == 0:
                        continue
                    o = list(occ)
                    o[j] += 1
                    # a_j^dagger |n> = sqrt(n+1) |n+1>
                    new[tuple(o)] = new.get(tuple(o), 0) + a * U[j, i] * math.sqrt(o[j])
            state = new
    norm = math.sqrt(math.prod(math.factorial(n) for n in ins))
    return {k: v / norm for k, v in state.items()}


def add_heralds(vis, heralds: dict):
    """Place visible occupations around herald modes (by absolute position)."""
    n = len(vis) + len(heralds)
    out, it = [], iter(vis)
    for i in range(n):
        out.append(heralds[i] if i in heralds else next(it))
    return tuple(out)


def remove_modes(full, modes):
    ms = set(modes)
    return tuple(v for i, v in enumerate(full) if i not in ms)
