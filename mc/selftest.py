"""Cross-validation of the reference models against each other. Runs at the
start of every check and in setup_cmd: a wrong oracle fails here loudly instead
of raising an alarm on the library."""
from __future__ import annotations

import itertools
import math

import numpy as np

from . import kernel, ref_fock
from .ref_circuit import RefCircuit, bs_matrix, compare_scatter

_done = False


def selftest():
    global _done
    if _done:
        return
    # 1. Ryser vs definition of the permanent
    rng = np.random.default_rng(12345)
    for n in range(0, 6):
        a = rng.normal(size=(n, n)) + 1j * rng.normal(size=(n, n))
        assert abs(ref_fock.perm(a) - ref_fock.perm_naive(a)) < 1e-9 * max(1, abs(ref_fock.perm_naive(a))), n
    for n in (5, 6, 7):
        a = rng.normal(size=(n, n)) + 1j * rng.normal(size=(n, n))
        assert abs(ref_fock.perm(a) - ref_fock.perm_ryser(a)) < 1e-8 * max(1, abs(ref_fock.perm_ryser(a))), n
    # 2. permanent amplitudes vs polynomial expansion, incl. bunching; unit norm
    for n, seed in ((2, 1), (3, 2), (4, 3)):
        u = kernel.haar(n, seed)
        assert np.allclose(u.conj().T @ u, np.eye(n), atol=1e-12)
        for ph in range(0, 4):
            for ins in ref_fock.basis(n, ph):
                ev = ref_fock.evolve_poly(u, ins)
                tot = 0
                for o in ref_fock.basis(n, ph):
                    a = ref_fock.amp(u, ins, o)
                    assert abs(a - ev.get(o, 0)) < 1e-10, (ins, o)
                    tot += abs(a) ** 2
                assert abs(tot - 1) < 1e-10
    # 3. HOM: two photons on a 50:50 splitter never anti-bunch
    b = bs_matrix(0.5)
    assert abs(ref_fock.amp(b, (1, 1), (1, 1))) < 1e-12
    # 4. RefCircuit: composition via scatter == direct matrix composition
    u3, u2 = kernel.haar(3, 5), kernel.haar(2, 6)
    sub = RefCircuit(3); sub.unitary(0, u3); sub.herald(1, 0, 2)
    par = RefCircuit(3); par.bs(0, 2, 0.3); par.add(sub, 1); par.ps(1, 0.4)
    # direct: modes 0,1,2 + ancilla a; sub acts with in cols [1,2 | a] rows [out0, out1 | a]
    e = np.eye(4, dtype=complex)
    m = e.copy(); m[np.ix_([0, 2], [0, 2])] = bs_matrix(0.3)
    s = e.copy()
    rows, cols = [0, 1, 2], [1, 2, 0]        # sub visible outs 0,1 + herald out 2 ; visible ins 1,2 + herald in 0
    blk = u3[np.ix_(rows, cols)]
    s[np.ix_([1, 2, 3], [1, 2, 3])] = blk
    p = e.copy(); p[1, 1] = np.exp(0.4j)
    direct = p @ s @ m
    assert np.allclose(par.M, direct, atol=1e-12)
    assert par.scatter()[2] == [1] and par.scatter()[1] == 3
    # 5. scatter comparison: accepts ancilla permutation, rejects a transposed block
    a = RefCircuit(2); a.unitary(0, u2)
    bb = RefCircuit(2); bb.unitary(0, u2.T)
    assert compare_scatter(a.scatter(), a.scatter())[0] == "ok"
    assert compare_scatter(a.scatter(), bb.scatter())[0] == "wrong"
    _done = True


if __name__ == "__main__":
    selftest()
    print("selftest ok")
