"""RefCircuit: a circuit is a matrix over [construction modes..., private
ancillas...] plus external heralds. No mode-shifting logic at all.

numpy only; does not import lightworks (impl_scatter only reads attributes).
"""
from __future__ import annotations

import itertools
import math

import numpy as np

from . import ref_fock


def bs_matrix(r, conv="Rx"):
    t = math.acos(math.sqrt(r))
    c, s = math.cos(t), math.sin(t)
    if conv == "Rx":
        return np.array([[c, 1j * s], [1j * s, c]])
    if conv == "H":
        return np.array([[c, s], [s, -c]], dtype=complex)
    raise ValueError(conv)


class RefCircuit:
    def __init__(self, n):
        self.c = n        # construction (user-addressable) modes
        self.anc = []     # photon numbers of private ancillas; index c+k
        self.ext = []     # external heralds (in_mode, out_mode, n) on construction modes
        self.M = np.eye(n, dtype=complex)
        self.n_loss = 0

    @property
    def N(self):
        return self.c + len(self.anc)

    def copy(self):
        r = RefCircuit(self.c)
        r.anc, r.ext, r.M, r.n_loss = list(self.anc), list(self.ext), self.M.copy(), self.n_loss
        return r

    # primitive components --------------------------------------------------
    def apply(self, idx, mat):
        e = np.eye(self.N, dtype=complex)
        e[np.ix_(idx, idx)] = mat
        self.M = e @ self.M

    def bs(self, a, b, r=0.5, conv="Rx"):
        self.apply([a, b], bs_matrix(r, conv))

    def ps(self, a, phi):
        self.apply([a], np.array([[np.exp(1j * phi)]]))

    def loss(self, a, l):
        self.apply([a], np.array([[math.sqrt(1 - l)]]))
        self.n_loss += 1

    def swaps(self, d):
        ks = sorted(d)
        p = np.zeros((len(ks), len(ks)))
        for k in ks:
            p[ks.index(d[k]), ks.index(k)] = 1
        self.apply(ks, p)

    def unitary(self, a, u):
        self.apply(list(range(a, a + u.shape[0])), u)

    # legality --------------------------------------------------------------
    def in_range(self, m):
        return isinstance(m, int) and not isinstance(m, bool) and 0 <= m < self.c

    def can_herald(self, i, o):
        return (self.in_range(i) and self.in_range(o)
                and all(i != e[0] for e in self.ext)
                and all(o != e[1] for e in self.ext))

    def herald(self, n, i, o):
        self.ext.append((i, o, n))

    def vis_in(self):
        return [m for m in range(self.c) if all(m != e[0] for e in self.ext)]

    def vis_out(self):
        return [m for m in range(self.c) if all(m != e[1] for e in self.ext)]

    def can_add(self, sub, m):
        return isinstance(m, int) and 0 <= m and m + len(sub.vis_in()) <= self.c

    # composition -----------------------------------------------------------
    def scatter(self):
        """(S, v, anc): rows [visible outs..., herald outs...], cols [visible
        ins..., herald ins...], v visible modes, anc herald photon numbers."""
        rows = self.vis_out() + [e[1] for e in self.ext] + list(range(self.c, self.N))
        cols = self.vis_in() + [e[0] for e in self.ext] + list(range(self.c, self.N))
        return (self.M[np.ix_(rows, cols)], len(self.vis_in()),
                [e[2] for e in self.ext] + list(self.anc))

    def add(self, sub: "RefCircuit", m):
        s, v, anc = sub.scatter()
        n0 = self.N
        mm = np.eye(n0 + len(anc), dtype=complex)
        mm[:n0, :n0] = self.M
        self.M = mm
        self.anc += anc
        self.n_loss += sub.n_loss
        self.apply(list(range(m, m + v)) + list(range(n0, n0 + len(anc))), s)


# ---------------------------------------------------------------------------
def impl_scatter(c):
    """Same canonical data read off a real lightworks circuit."""
    u = c.U
    h = c.heralds
    hin, hout = h["input"], h["output"]
    n = c.n_modes
    # herald modes ordered by photon number (stable): equal-photon ancillas are
    # interchangeable in every amplitude, so only the multisets must agree
    kin = sorted(hin.keys(), key=lambda k: hin[k])
    kout = sorted(hout.keys(), key=lambda k: hout[k])
    cols = [i for i in range(n) if i not in hin] + kin
    rows = [i for i in range(n) if i not in hout] + kout
    anc_in = [hin[k] for k in kin]
    anc_out = [hout[k] for k in kout]
    if anc_in != anc_out:
        raise ScatterError("herald photon numbers differ between input and output: %r %r"
                           % (hin, hout))
    return u[np.ix_(rows, cols)], n - len(hin), anc_in


class ScatterError(Exception):
    pass


def heralded_amp(sc, vin, vout):
    s, v, anc = sc
    return ref_fock.amp(s, tuple(vin) + tuple(anc), tuple(vout) + tuple(anc))


def scatter_equal(a, b, tol=1e-9):
    """Quick accept: equal up to independent permutations of equal-photon-number
    ancilla rows/columns, zero-photon ancilla rows/cols dropped."""
    (ma, va, anca), (mb, vb, ancb) = a, b
    if va != vb or sorted(anca) != sorted(ancb) or ma.shape != mb.shape:
        return False
    ka = list(range(va)) + [va + k for k, n in enumerate(anca) if n > 0]
    na = [n for n in anca if n > 0]
    kb0 = [vb + k for k, n in enumerate(ancb) if n > 0]
    nb = [n for n in ancb if n > 0]
    a_ = ma[np.ix_(ka, ka)]
    for pr in itertools.permutations(range(len(kb0))):
        if [nb[i] for i in pr] != na:
            continue
        for pc in itertools.permutations(range(len(kb0))):
            if [nb[i] for i in pc] != na:
                continue
            rows = list(range(vb)) + [kb0[i] for i in pr]
            cols = list(range(vb)) + [kb0[i] for i in pc]
            if np.allclose(a_, mb[np.ix_(rows, cols)], atol=tol):
                return True
    return False


def scatter_witness(a, b, max_photons=2, tol=1e-9):
    """A concrete heralded amplitude that differs, or None."""
    (ma, va, anca), (mb, vb, ancb) = a, b
    if va != vb:
        return {"visible_modes": [va, vb]}
    if sorted(anca) != sorted(ancb):
        return {"herald_photons": [sorted(anca), sorted(ancb)]}
    for n in range(0, max_photons + 1):
        for vin in ref_fock.basis(va, n):
            for vout in ref_fock.basis(va, n):
                x, y = heralded_amp(a, vin, vout), heralded_amp(b, vin, vout)
                if abs(x - y) > tol:
                    return {"input": list(vin), "output": list(vout),
                            "impl_amp": [x.real, x.imag], "ref_amp": [y.real, y.imag]}
    return None


def compare_scatter(impl_sc, ref_sc, tol=1e-9):
    """'ok' | ('wrong', witness) | 'inconclusive'."""
    if scatter_equal(impl_sc, ref_sc, tol):
        return "ok", None
    w = scatter_witness(impl_sc, ref_sc, 2, tol) or scatter_witness(impl_sc, ref_sc, 3, tol)
    if w is not None:
        return "wrong", w
    return "inconclusive", None
