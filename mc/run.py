"""CLI: ./check <ID> [--tier quick|thorough] [--seed N] [--replay FILE]

Runs one property's bounded exhaustive check against /repo's working tree,
writes /verif/evidence/<ID>.json, prints KNOWN-FINDING / VIOLATION lines and
exits 0 (held on everything explored) or 1.
"""
from __future__ import annotations

import argparse
import warnings
import hashlib
import importlib
import json
import os
import re
import sys
import time

from . import kernel

VERIF = kernel.VERIF
OUT = os.environ.get("VERIF_OUT", VERIF)      # evidence/replays of runs against scratch trees go elsewhere
PROPS = ["C%02d" % i for i in range(1, 20)]


def write_replay(pid, w):
    d = os.path.join(OUT, "replays")
    os.makedirs(d, exist_ok=True)
    blob = json.dumps({"property": pid, **w}, sort_keys=True, indent=1)
    h = hashlib.sha1(blob.encode()).hexdigest()[:10]
    path = os.path.join(d, f"{pid}-{h}.json")
    with open(path, "w") as f:
        f.write(blob)
    return path


def main(argv=None):
    warnings.filterwarnings("ignore")
    ap = argparse.ArgumentParser()
    ap.add_argument("pid")
    ap.add_argument("--tier", default=os.environ.get("VERIF_TIER", "quick"),
                    choices=["quick", "thorough"])
    ap.add_argument("--seed", type=int,
                    default=int(os.environ.get("VERIF_SEED", "0") or 0))
    ap.add_argument("--replay")
    a = ap.parse_args(argv)
    pid = a.pid.upper()
    if pid not in PROPS:
        print("unknown property", pid)
        return 2
    import lightworks  # noqa: F401  (fail early, and report what is checked)
    lw_path = os.path.dirname(os.path.abspath(lightworks.__file__))
    mod = importlib.import_module("mc.props." + pid.lower())

    if a.replay:
        with open(a.replay) as f:
            w = json.load(f)
        acc = kernel.Acc()       # replay ignores the known list: it shows what happens
        mod.replay(w, acc)
        if acc.total_violations:
            for kind, lst in acc.viol.items():
                for v in lst:
                    print("REPRODUCED kind=%s detail=%s" % (kind, json.dumps(v["detail"])[:600]))
            print(f"VIOLATION property={pid} replay={a.replay}")
            return 1
        print("replay: no violation on the current tree")
        return 0

    kernel.set_property(pid)
    t0 = time.time()
    from .selftest import selftest
    selftest()                       # a wrong oracle must fail here, not alarm on the library
    try:
        acc, meta = mod.run(a.tier, a.seed)
    except Exception:  # noqa: BLE001
        if os.environ.get("VERIF_STRICT"):
            raise
        import traceback
        acc, meta = kernel.Acc(), {"rule": "run aborted by an exception escaping from a library call", "exhaustive": False,
                                   "caps_hit": ["aborted"], "sample": "aborted"}
        acc.violation("unexpected_exception_in_library_call", {"stage": "main process"},
                      {"traceback_tail": traceback.format_exc()[-1500:]})
        acc.counts["states"] = 1; acc.counts["transitions"] = 1
    wall = time.time() - t0

    new_paths = []
    n_known = sum(acc.known.values())
    for kind, lst in acc.viol.items():
        for w in lst:
            new_paths.append((kind, write_replay(pid, w), w))
    whats = {e.get("id"): e.get("what", "") for e in kernel._KNOWN}
    for kid, n in acc.known.items():
        print(f"KNOWN-FINDING: property={pid} {kid}: {whats.get(kid, '')} ({n} occurrences)")

    cov = {
        "states": max(len(acc.states), int(acc.counts.get("states", 0))),
        "transitions": int(acc.counts.get("transitions", 0)),
        "traces_validated_against_impl": int(
            acc.counts.get("executions", acc.counts.get("programs", 0))),
        "evaluations": int(acc.counts.get("evaluations",
                                          acc.counts.get("executions",
                                                         acc.counts.get("programs", 0)))),
        "distinct_nontrivial": len(acc.nontrivial),
        "rule": meta.get("rule", ""),
        "samples": acc.samples[:6] or [meta.get("sample", "n/a")],
        "exhaustive": bool(meta.get("exhaustive", True)),
        "bounds": meta.get("bounds", {}),
        "counters": {k: int(v) for k, v in sorted(acc.counts.items())},
        "distinct_outcomes": len(acc.outcomes),
        "outcome_histogram": {str(k): int(v) for k, v in acc.outcomes.most_common(12)},
        "caps_hit": meta.get("caps_hit", []),
        "trace_validation": "every explored trace is an execution of the implementation "
                            "under test (no separate model): model/implementation gap is nil",
        "violations_by_kind": {k: int(v) for k, v in acc.nviol.items()},
        "known_findings_seen": {k: int(v) for k, v in acc.known.items()},
        "lightworks_path": lw_path,
    }
    cov.update(meta.get("coverage_extra", {}))
    ev = {
        "property_id": pid,
        "tier": a.tier,
        "seed": a.seed,
        "level": "model_checking",
        "coverage": cov,
        "assumptions": meta.get("assumptions", []),
        "wall_s": round(wall, 3),
        "violations": int(acc.total_violations),
    }
    os.makedirs(os.path.join(OUT, "evidence"), exist_ok=True)
    with open(os.path.join(OUT, "evidence", pid + ".json"), "w") as f:
        json.dump(ev, f, indent=1, sort_keys=True)

    print(f"{pid} tier={a.tier} seed={a.seed} states={cov['states']} "
          f"transitions={cov['transitions']} executions={cov['traces_validated_against_impl']} "
          f"nontrivial={cov['distinct_nontrivial']} outcomes={cov['distinct_outcomes']} "
          f"violations={acc.total_violations} (known {n_known}) wall={wall:.1f}s")
    if new_paths:
        for kind, path, w in new_paths:
            print(f"  kind={kind} detail={json.dumps(w['detail'])[:400]}")
            print(f"VIOLATION property={pid} replay={path}")
        for kind, n in acc.nviol.items():
            print(f"  total {kind}: {n}")
        return 1
    return 0


if __name__ == "__main__":
    sys.exit(main())
