"""Bounded exhaustive exploration kernel (engines E1, E2, E3 of DESIGN.md).

Nothing in here samples: every enumerator walks a finite, explicitly bounded
space completely and reports how much it walked.
"""
from __future__ import annotations

import collections
import hashlib
import itertools
import json
import multiprocessing as mp
import os
import sys
import time
import traceback

import numpy as np

VERIF = os.path.dirname(os.path.dirname(os.path.abspath(__file__)))
NPROC = int(os.environ.get("VERIF_NPROC", "16"))


# --------------------------------------------------------------------------
# result accumulation
# --------------------------------------------------------------------------
class Acc:
    """Mergeable accumulator of what a (shard of a) run covered."""

    MAX_WITNESS_PER_KIND = 4

    def __init__(self):
        self.counts = collections.Counter()   # free-form measured counters
        self.states = set()                   # 8-byte fingerprints of impl states
        self.nontrivial = set()               # fingerprints of non-trivial cases
        self.outcomes = collections.Counter() # distinct observed outcome classes
        self.samples = []                     # a few explored cases, verbatim
        self.viol = collections.OrderedDict() # kind -> [witness dicts]
        self.nviol = collections.Counter()    # kind -> count
        self.known = collections.Counter()    # known-finding id -> occurrences

    # ---- recording
    def tick(self, key, n=1):
        self.counts[key] += n

    def state(self, *parts):
        self.states.add(fp8(parts))

    def nontriv(self, *parts):
        self.nontrivial.add(fp8(parts))

    def outcome(self, label):
        self.outcomes[label] += 1

    def sample(self, case, limit=3):
        if len(self.samples) < limit:
            self.samples.append(jsonable(case))

    def violation(self, kind, case, detail=None):
        """A concrete witness that the property fails on `case`."""
        w = {"kind": kind, "case": jsonable(case), "detail": jsonable(detail)}
        ent = match_known(w)
        if ent is not None:           # listed finding: reported, never an alarm
            self.known[ent.get("id", kind)] += 1
            return
        self.nviol[kind] += 1
        lst = self.viol.setdefault(kind, [])
        if len(lst) < self.MAX_WITNESS_PER_KIND:
            lst.append({"kind": kind, "case": jsonable(case),
                        "detail": jsonable(detail)})

    # ---- merging (deterministic: callers merge in shard order)
    def merge(self, other: "Acc"):
        self.counts.update(other.counts)
        self.states |= other.states
        self.nontrivial |= other.nontrivial
        self.outcomes.update(other.outcomes)
        for s in other.samples:
            if len(self.samples) < 6:
                self.samples.append(s)
        for k, lst in other.viol.items():
            mine = self.viol.setdefault(k, [])
            for w in lst:
                if len(mine) < self.MAX_WITNESS_PER_KIND:
                    mine.append(w)
        self.nviol.update(other.nviol)
        self.known.update(other.known)
        return self

    @property
    def total_violations(self):
        return sum(self.nviol.values())


# known findings (committed file, read-only at run time) -------------------
_KNOWN = []


def set_property(pid):
    """Load the `known` entries for this property (status 'fixed' suppresses
    nothing and is therefore not loaded)."""
    global _KNOWN
    path = os.path.join(VERIF, "known_findings.json")
    _KNOWN = []
    if os.path.exists(path):
        with open(path) as f:
            for e in json.load(f).get("findings", []):
                if e.get("property") == pid and e.get("status") == "known":
                    _KNOWN.append(e)


def match_known(w):
    import re
    for e in _KNOWN:
        m = e.get("match", {})
        if "kind" in m and m["kind"] != w["kind"]:
            continue
        if "case_regex" in m and not re.search(
                m["case_regex"], json.dumps(w["case"], sort_keys=True)):
            continue
        return e
    return None


def fp8(obj) -> bytes:
    return hashlib.blake2b(repr(canon(obj)).encode(), digest_size=8).digest()


def canon(x):
    """Canonical, hashable, order-preserving structural form of a value."""
    if isinstance(x, np.ndarray):
        return ("nd", x.shape, np.round(x, 9).tobytes()
                if x.dtype.kind in "fc" else x.tobytes())
    if isinstance(x, dict):
        return ("d",) + tuple((canon(k), canon(v)) for k, v in x.items())
    if isinstance(x, (list, tuple)):
        return tuple(canon(i) for i in x)
    if isinstance(x, (set, frozenset)):
        return ("set",) + tuple(sorted(repr(canon(i)) for i in x))
    if isinstance(x, (np.floating, np.integer, np.complexfloating)):
        return x.item()
    if isinstance(x, (int, float, str, bool, type(None), complex, bytes)):
        return x
    return repr(x)


def jsonable(x):
    if isinstance(x, np.ndarray):
        if x.dtype.kind == "c":
            return [jsonable(v) for v in x.tolist()]
        return x.tolist()
    if isinstance(x, complex):
        return {"re": x.real, "im": x.imag}
    if isinstance(x, (np.floating, np.integer)):
        return x.item()
    if isinstance(x, np.complexfloating):
        return jsonable(complex(x))
    if isinstance(x, dict):
        return {str(k): jsonable(v) for k, v in x.items()}
    if isinstance(x, (list, tuple)):
        return [jsonable(v) for v in x]
    if isinstance(x, (set, frozenset)):
        return sorted(jsonable(v) for v in x)
    if isinstance(x, (int, float, str, bool, type(None))):
        return x
    return repr(x)


# --------------------------------------------------------------------------
# parallel sharding
# --------------------------------------------------------------------------
_WORKER_FN = None
_SHARDS = None


def _worker(idx):
    # shards and the function are inherited through fork (they may hold closures / lambdas)
    try:
        acc = _WORKER_FN(_SHARDS[idx])
        return idx, acc, None
    except Exception:
        return idx, None, traceback.format_exc()


def pmap(fn, shards, nproc=None):
    """Run fn(shard)->Acc on every shard (forked workers), merge in shard order.

    fn may be a closure: workers are forked after it is stored in a global.
    A crashing shard is a harness error (raised), never a silent skip.
    """
    global _WORKER_FN
    shards = list(shards)
    nproc = min(nproc or NPROC, max(1, len(shards)))
    total = Acc()
    if nproc <= 1 or os.environ.get("VERIF_SERIAL"):
        for i, s in enumerate(shards):
            try:
                total.merge(fn(s))
            except Exception:  # noqa: BLE001
                total.merge(_crash_acc(i, traceback.format_exc()))
        return total
    global _SHARDS
    _WORKER_FN, _SHARDS = fn, shards
    ctx = mp.get_context("fork")
    with ctx.Pool(nproc) as pool:
        results = pool.map(_worker, range(len(shards)), chunksize=1)
    for idx, acc, err in sorted(results, key=lambda r: r[0]):
        if err is not None:
            total.merge(_crash_acc(idx, err))
            continue
        total.merge(acc)
    return total


def _crash_acc(idx, err):
    """An exception that escaped from the library through the harness while exploring a shard. On the
    unchanged tree this never happens (every check runs clean); on a changed tree it means the library now
    raises where it did not, which is reported as a violation with the traceback as witness rather than as a
    harness crash. VERIF_STRICT=1 restores the hard failure (used while developing the harness)."""
    if os.environ.get("VERIF_STRICT"):
        raise RuntimeError(f"harness error in shard {idx}:\n{err}")
    acc = Acc()
    acc.violation("unexpected_exception_in_library_call", {"shard": idx}, {"traceback_tail": err[-1500:]})
    return acc


def chunks(seq, n):
    """Split a list into n nearly equal contiguous parts (deterministic)."""
    seq = list(seq)
    n = max(1, min(n, len(seq)))
    k, r = divmod(len(seq), n)
    out, i = [], 0
    for j in range(n):
        step = k + (1 if j < r else 0)
        out.append(seq[i:i + step])
        i += step
    return [c for c in out if c]


def interleave(seq, n):
    """Round-robin split (balances cost when cost grows along the list)."""
    seq = list(seq)
    n = max(1, min(n, len(seq)))
    return [seq[i::n] for i in range(n)]


# --------------------------------------------------------------------------
# E1: program-space explorer
# --------------------------------------------------------------------------
def programs(alphabet, depth, first=None):
    """All op sequences of length 1..depth over `alphabet` (simplest first).

    `first`, if given, restricts the first operation (used for sharding).
    """
    firsts = alphabet if first is None else first
    for d in range(1, depth + 1):
        for f in firsts:
            if d == 1:
                yield (f,)
            else:
                for rest in itertools.product(alphabet, repeat=d - 1):
                    yield (f,) + rest


def explore_programs(alphabet, depth, run_program, nproc=None, shard_by=None):
    """E1. run_program(prog, acc) executes one program on the real code with a
    fresh reference next to it and records verdicts in acc. Sharded by first op.
    """
    alphabet = list(alphabet)

    def shard_fn(firsts):
        acc = Acc()
        for prog in programs(alphabet, depth, first=firsts):
            acc.tick("programs")
            acc.tick("transitions", len(prog))
            run_program(prog, acc)
        return acc

    shards = interleave(alphabet, (nproc or NPROC) * 4)
    return pmap(shard_fn, shards, nproc)


# --------------------------------------------------------------------------
# E2: explicit-state BFS on the real transition function
# --------------------------------------------------------------------------
def bfs(build, alphabet, fingerprint, check_state, max_depth=None,
        max_states=None, acc=None, enabled=None):
    """E2. A state is the shortest op history reaching it; `build(hist)`
    replays it on fresh real objects and returns the live pool (or raises
    Skip if the history is not executable). `check_state(hist, pool, acc)`
    evaluates the invariant. Returns (acc, closed: bool).
    """
    acc = acc or Acc()
    pool = build(())
    seen = {fingerprint(pool): ()}
    check_state((), pool, acc)
    frontier = collections.deque([()])
    closed = True
    maxd = 0
    while frontier:
        hist = frontier.popleft()
        if max_depth is not None and len(hist) >= max_depth:
            closed = False
            continue
        ops = alphabet if enabled is None else enabled(hist)
        for op in ops:
            h = hist + (op,)
            try:
                pool = build(h)
            except Skip:
                acc.tick("skipped_transitions")
                continue
            acc.tick("transitions")
            k = fingerprint(pool)
            if k in seen:
                continue
            seen[k] = h
            maxd = max(maxd, len(h))
            check_state(h, pool, acc)
            if max_states is not None and len(seen) >= max_states:
                acc.counts["states"] = len(seen)
                acc.counts["max_depth"] = maxd
                acc.counts["cap_hit"] = 1
                return acc, False
            frontier.append(h)
    acc.counts["states"] = len(seen)
    acc.counts["max_depth"] = maxd
    return acc, closed


class Skip(Exception):
    """History not executable under the alphabet's own preconditions."""


# --------------------------------------------------------------------------
# E3: choice-point enumerator (owns every random source)
# --------------------------------------------------------------------------
class Oracle:
    """Scripted answers: replay `prefix`, then option 0; records the trace."""

    def __init__(self, prefix=()):
        self.prefix = list(prefix)
        self.trace = []      # (choice, n_options, label)
        self.weight = 1.0

    def choose(self, weights, label=""):
        i = len(self.trace)
        if i < len(self.prefix):
            k = self.prefix[i]
            if not 0 <= k < len(weights):
                raise ReplayDivergence(
                    f"choice {k} out of range at point {i} ({label})")
        else:
            k = 0
        self.trace.append((k, len(weights), label))
        self.weight *= weights[k]
        return k


class ReplayDivergence(Exception):
    pass


def all_paths(run, max_paths=2_000_000, check_replay=False):
    """DFS over every answer sequence of every choice point `run(oracle)` hits.
    Yields (weight, outcome, trace). With check_replay each schedule is
    executed twice and must give the identical trace and outcome.
    """
    stack = [[]]
    n = 0
    while stack:
        prefix = stack.pop()
        o = Oracle(prefix)
        out = run(o)
        n += 1
        if n > max_paths:
            raise RuntimeError("path cap hit: %d" % max_paths)
        # replaying a prefix must reproduce it (labels included)
        if check_replay:
            o2 = Oracle([t[0] for t in o.trace])
            out2 = run(o2)
            if o2.trace != o.trace or out2 != out:
                raise ReplayDivergence("schedule not reproducible: %r" % (o.trace,))
        for i in range(len(prefix), len(o.trace)):
            k, m, _ = o.trace[i]
            for alt in range(1, m):
                stack.append([t[0] for t in o.trace[:i]] + [alt])
        yield o.weight, out, o.trace


class Draw(float):
    """A uniform[0,1) variate that may only be *compared*. Each comparison with
    a threshold inside the current interval is a weighted binary choice point;
    the interval is then narrowed so later comparisons are conditioned on it.
    Any other use raises: "the code only compares its draws" is checked.
    """

    def __new__(cls, oracle, label="u"):
        x = float.__new__(cls, 0.5)
        x.o = oracle
        x.lo = 0.0
        x.hi = 1.0
        x.label = label
        return x

    def _cmp(self, t, want_less):
        t = float(t)
        if t <= self.lo:
            less = False
        elif t >= self.hi:
            less = True
        else:
            span = self.hi - self.lo
            w = [(t - self.lo) / span, (self.hi - t) / span]
            k = self.o.choose(w, "%s<%.12g" % (self.label, t))
            less = (k == 0)
            if less:
                self.hi = t
            else:
                self.lo = t
        return less if want_less else not less

    def __lt__(self, t): return self._cmp(t, True)
    def __le__(self, t): return self._cmp(t, True)
    def __gt__(self, t): return self._cmp(t, False)
    def __ge__(self, t): return self._cmp(t, False)

    def _no(self, *a, **k):
        raise DrawMisuse("random draw used outside an ordering comparison")

    __add__ = __radd__ = __sub__ = __rsub__ = __mul__ = __rmul__ = _no
    __truediv__ = __rtruediv__ = __float__ = __int__ = __eq__ = __ne__ = _no
    __hash__ = __bool__ = __neg__ = __abs__ = __round__ = __pow__ = _no
    __repr__ = lambda self: "Draw[%g,%g)" % (self.lo, self.hi)  # noqa: E731


class DrawMisuse(AssertionError):
    pass


class FakeGenerator:
    """Stand-in for numpy's Generator: every categorical draw is a choice point
    weighted by p; the (vals, p) handed in are recorded verbatim."""

    def __init__(self, oracle, log=None):
        self.o = oracle
        self.log = log if log is not None else []

    def choice(self, vals, p=None, size=None):
        ints = isinstance(vals, (int, np.integer)) and not isinstance(vals, bool)
        vals = list(range(int(vals))) if ints else list(vals)     # numpy: choice(n) draws from arange(n)
        if p is None:
            p = [1.0 / len(vals)] * len(vals)
        p = [float(x) for x in p]
        if any(x < 0 for x in p):
            raise ValueError("probabilities are not non-negative")
        tot = sum(p)
        if abs(tot - 1) > 1e-8:       # numpy's own acceptance rule
            raise ValueError("probabilities do not sum to 1")
        self.log.append((vals, p, size))
        n = 1 if size is None else int(size)
        idx = [self.o.choose(p, "choice") for _ in range(n)]
        if size is None:
            return vals[idx[0]]
        if ints:
            return np.array([vals[i] for i in idx], dtype=np.int64)
        out = np.zeros(n, dtype=object)
        for j, i in enumerate(idx):
            out[j] = vals[i]
        return out


# --------------------------------------------------------------------------
# misc helpers
# --------------------------------------------------------------------------
def generic_reals(seed, n, lo, hi, avoid=(), margin=0.04):
    """n seed-chosen 'generic' reals in (lo,hi) that stay `margin` away from the
    boundaries, from every value in `avoid`, and from each other."""
    rng = np.random.default_rng([seed, int(abs(lo) * 1000), int(abs(hi) * 1000), n])
    out = []
    tries = 0
    while len(out) < n:
        tries += 1
        x = float(rng.uniform(lo, hi))
        bad = [lo, hi, *avoid, *out]
        if all(abs(x - b) > margin * (hi - lo) for b in bad):
            out.append(round(x, 6))
        if tries > 10000:
            raise RuntimeError("cannot place generic reals")
    return out


def haar(n, seed):
    """Haar-random unitary, harness-owned (independent of the library's own)."""
    rng = np.random.default_rng([seed, n, 77])
    z = (rng.normal(size=(n, n)) + 1j * rng.normal(size=(n, n))) / np.sqrt(2)
    q, r = np.linalg.qr(z)
    d = np.diag(r)
    return q * (d / np.abs(d))


class Timer:
    def __init__(self):
        self.t0 = time.time()

    def __call__(self):
        return time.time() - self.t0


# --------------------------------------------------------------------------
# E2, level-synchronous parallel variant
# --------------------------------------------------------------------------
def bfs_levels(expand, init_key, max_depth, nproc=None, max_states=None):
    """expand(hist) -> (Acc, [(key, hist2), ...]) runs every enabled transition
    from the state reached by `hist` on the real code and returns successor
    fingerprints. Frontier expansion is parallel, merging/dedup is sequential
    and deterministic. Returns (Acc, n_states, closed, depth_reached)."""
    seen = {init_key: ()}
    frontier = [()]
    total = Acc()
    depth = 0
    closed = False
    while frontier:
        if depth >= max_depth:
            break

        def shard_fn(hists):
            acc = Acc()
            succ = []
            for h in hists:
                a, s = expand(h)
                acc.merge(a)
                succ.extend(s)
            acc._succ = succ
            return acc

        parts = interleave(frontier, (nproc or NPROC) * 2)
        results = _pmap_raw(shard_fn, parts, nproc)
        nxt = []
        for acc in results:
            for key, h in acc._succ:
                if key not in seen:
                    seen[key] = h
                    nxt.append(h)
            acc._succ = None
            total.merge(acc)
        depth += 1
        frontier = nxt
        if max_states is not None and len(seen) >= max_states:
            total.counts["cap_hit"] = 1
            break
    else:
        closed = True
    if not frontier:
        closed = True
    total.counts["states"] = len(seen)
    total.counts["max_depth"] = depth
    total.counts["frontier_left"] = len(frontier)
    return total, len(seen), closed, depth


def _pmap_raw(fn, shards, nproc=None):
    """Like pmap but returns the per-shard Acc objects (in shard order)."""
    global _WORKER_FN, _SHARDS
    shards = list(shards)
    nproc = min(nproc or NPROC, max(1, len(shards)))
    if nproc <= 1 or os.environ.get("VERIF_SERIAL"):
        return [fn(s) for s in shards]
    _WORKER_FN, _SHARDS = fn, shards
    ctx = mp.get_context("fork")
    with ctx.Pool(nproc) as pool:
        results = pool.map(_worker, range(len(shards)), chunksize=1)
    out = []
    for idx, acc, err in sorted(results, key=lambda r: r[0]):
        if err is not None:
            acc = _crash_acc(idx, err)
            acc._succ = []
        out.append(acc)
    return out
