"""RefSource (generative imperfect-source model) and RefDetector. numpy only."""
from __future__ import annotations

import itertools
import math

from . import ref_fock


# ---------------------------------------------------------------------------
# source
# ---------------------------------------------------------------------------
def two_photon_prob(purity):
    """p2 of the emitted state p1|1> + p2|2> whose g2 is 1 - purity:
    g2 = <n(n-1)>/<n>^2 = 2 p2 / (1 + p2)^2, smaller root."""
    if purity >= 1:
        return 0.0
    g2 = 1 - purity
    # g2 p2^2 + (2 g2 - 2) p2 + g2 = 0
    a, b, c = g2, 2 * g2 - 2, g2
    return (-b - math.sqrt(b * b - 4 * a * c)) / (2 * a)


def photon_outcomes(brightness, purity, indist):
    """Outcomes for ONE requested photon, written from the statement: emitted
    alone (p1) or with one noise partner (p2); every emitted photon is
    transmitted independently with probability `brightness`; the intended
    photon is indistinguishable with probability sqrt(indistinguishability),
    otherwise fully distinguishable; the noise photon is always distinguishable.
    Returns [(prob, signal in {None,'I','D'}, noise: bool)]."""
    p2 = two_photon_prob(purity)
    p1 = 1 - p2
    nu = brightness
    pi = math.sqrt(indist)
    out = []
    for emitted_noise, pe in ((False, p1), (True, p2)):
        for sig_tx, ps in ((True, nu), (False, 1 - nu)):
            for noise_tx, pn in (((True, nu), (False, 1 - nu)) if emitted_noise else ((False, 1.0),)):
                for kind, pk in ((("I", pi), ("D", 1 - pi)) if sig_tx else ((None, 1.0),)):
                    p = pe * ps * pn * pk
                    if p > 0:
                        out.append((p, kind, noise_tx))
    # merge identical outcomes
    m = {}
    for p, k, nz in out:
        m[(k, nz)] = m.get((k, nz), 0.0) + p
    return [(p, k, nz) for (k, nz), p in m.items()]


def source_classes(in_occ, brightness, purity, indist):
    """Exact law over *physical* input classes: a class is the multiset of
    per-distinguishability-group occupation vectors. Returns {class: prob}."""
    n_modes = len(in_occ)
    photons = [m for m, n in enumerate(in_occ) for _ in range(n)]
    outs = photon_outcomes(brightness, purity, indist)
    classes = {}
    for combo in itertools.product(outs, repeat=len(photons)):
        p = 1.0
        shared = [0] * n_modes
        singles = []
        for (pp, kind, noise), mode in zip(combo, photons):
            p *= pp
            if kind == "I":
                shared[mode] += 1
            elif kind == "D":
                singles.append(mode)
            if noise:
                singles.append(mode)
        groups = []
        if sum(shared):
            groups.append(tuple(shared))
        for mode in singles:
            v = [0] * n_modes
            v[mode] = 1
            groups.append(tuple(v))
        key = tuple(sorted(groups))
        classes[key] = classes.get(key, 0.0) + p
    return classes


def convolve(d1, d2):
    out = {}
    for s1, p1 in d1.items():
        for s2, p2 in d2.items():
            k = tuple(a + b for a, b in zip(s1, s2))
            out[k] = out.get(k, 0.0) + p1 * p2
    return out


def class_output(groups, U_full, keep, cache):
    """Output law of one class: independent boson sampling of each group."""
    n_all = U_full.shape[0]
    dist = {tuple([0] * keep): 1.0}
    for g in groups:
        if g not in cache:
            full = tuple(g) + (0,) * (n_all - len(g))
            cache[g] = ref_fock.distribution(U_full, full, keep)[0]
        dist = convolve(dist, cache[g])
    return dist


def mixture_output(classes, U_full, keep, cache=None):
    cache = {} if cache is None else cache
    out = {}
    for groups, p in classes.items():
        for s, q in class_output(groups, U_full, keep, cache).items():
            out[s] = out.get(s, 0.0) + p * q
    return out


# ---------------------------------------------------------------------------
# detector
# ---------------------------------------------------------------------------
def detect(state, eff, pdark, counting):
    """Exact law of the detector output for one photon pattern: binomial
    thinning per mode, then at most one dark count per mode, then threshold."""
    dist = {(): 1.0}
    for n in state:
        new = {}
        for pre, p in dist.items():
            for k in range(n + 1):
                pk = math.comb(n, k) * eff ** k * (1 - eff) ** (n - k)
                for dk, pd in ((0, 1 - pdark), (1, pdark)):
                    if pk * pd == 0:
                        continue
                    c = k + dk
                    if not counting:
                        c = min(c, 1)
                    key = pre + (c,)
                    new[key] = new.get(key, 0.0) + p * pk * pd
        dist = new
    return dist
