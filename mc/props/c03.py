"""C03 — Simulator amplitudes are the Fock-space amplitudes of the circuit (E1
over circuit recipes x every Fock input/output x call shapes, refused calls)."""
from __future__ import annotations

import numpy as np

import lightworks as lw
from lightworks import emulator as emu

from .. import kernel, ref_fock
from ..circuit_ops import Env, build, emulator_family, herald_layout_family

TOL = 1e-9
REFUSALS = (emu.ModeMismatchError, emu.PhotonNumberError, TypeError, ValueError)


def ref_amp(uf, hin, hout, n_loss, vin, vout):
    fi = ref_fock.add_heralds(vin, hin) + (0,) * n_loss
    fo = ref_fock.add_heralds(vout, hout) + (0,) * n_loss
    return ref_fock.amp(uf, fi, fo)


def build_late(recipe, env):
    """Same circuit, but the Simulator is created on the still-empty circuit and every component and
    herald is added afterwards through the same object (the simulator must follow the circuit)."""
    from ..circuit_ops import apply_impl
    from .c02 import make_sub
    c = lw.Circuit(recipe["n"])
    sim = emu.Simulator(c)
    for op in recipe["ops"]:
        op = tuple(op)
        if op[0] == "her":
            c.herald(op[1], op[2], op[3])
        elif op[0] == "her1":
            c.herald(op[1], op[2])
        elif op[0] == "add":
            c.add(make_sub(op[1], env)[0], op[2], group=op[3])
        else:
            if op[0] == "sw":
                op = ("sw", tuple(tuple(x) for x in op[1]))
            c2 = apply_impl(c, op, env)
            assert c2 is c
    return c, sim


def check_circuit(recipe, env, maxph, acc, late=False):
    if late:
        c, sim_late = build_late(recipe, env)
    else:
        c, r = build(recipe, env)
    uf = c.U_full
    h = c.heralds
    hin, hout = h["input"], h["output"]
    n_loss = uf.shape[0] - c.n_modes
    nv = c.input_modes
    sim = sim_late if late else emu.Simulator(c)
    name = recipe["name"] + (":late" if late else "")
    base = {"recipe": recipe, "seed": env.seed, "simulator_created_before_circuit_was_built": late}
    acc.state(name)
    for k in range(0, maxph + 1):
        ins = ref_fock.basis(nv, k)
        if not ins:             # no visible mode: only the empty state, with no photons, exists
            continue
        # -- (a) list of all inputs, outputs=None -> full basis
        res = sim.simulate([lw.State(list(i)) for i in ins])
        acc.tick("executions"); acc.tick("transitions")
        outs = [tuple(o.s) for o in res.outputs]
        if sorted(outs) != sorted(ref_fock.basis(nv, k)) or len(set(outs)) != len(outs):
            acc.violation("outputs_not_full_basis", {**base, "photons": k}, {"outputs": outs})
            continue
        if [tuple(i.s) for i in res.inputs] != list(ins) or res.array.shape != (len(ins), len(outs)):
            acc.violation("result_shape_or_input_order", {**base, "photons": k}, None)
            continue
        want = np.array([[ref_amp(uf, hin, hout, n_loss, i, o) for o in outs] for i in ins])
        acc.tick("amplitudes", want.size)
        bad = np.argwhere(np.abs(res.array - want) > TOL)
        if len(bad):
            i, j = bad[0]
            acc.violation("amplitude", {**base, "input": ins[i], "output": outs[j]},
                          {"impl": complex(res.array[i, j]), "ref": complex(want[i, j]), "n_bad": len(bad)})
        if k and np.abs(want).max() > 1e-6:
            acc.nontriv(name, k)
        if n_loss == 0 and not hin:
            norms = (np.abs(res.array) ** 2).sum(axis=1)
            if np.abs(norms - 1).max() > 1e-9:
                acc.violation("not_unit_vector", {**base, "photons": k}, {"norms": norms})
        # -- (b) single State input, every single explicit output, and a 3-element list
        if k <= 2:
            for i in ins[:3]:
                si = lw.State(list(i))
                for o in outs:
                    rr = sim.simulate(si, [lw.State(list(o))])
                    acc.tick("executions"); acc.tick("transitions")
                    a = rr.array[0, 0]
                    if rr.array.shape != (1, 1) or abs(a - ref_amp(uf, hin, hout, n_loss, i, o)) > TOL \
                            or rr[si, lw.State(list(o))] != a:
                        acc.violation("amplitude_explicit_output", {**base, "input": i, "output": o},
                                      {"impl": complex(a)})
                if len(outs) >= 2:        # the same output named twice: every column is the amplitude of ITS state
                    rep = [outs[0], outs[-1], outs[0], outs[1]]
                    rr = sim.simulate(si, [lw.State(list(o)) for o in rep])
                    acc.tick("executions"); acc.tick("transitions")
                    w = [ref_amp(uf, hin, hout, n_loss, i, o) for o in rep]
                    if rr.array.shape != (1, 4) or np.abs(rr.array[0] - w).max() > TOL:
                        acc.violation("explicit_output_order", {**base, "input": i, "outputs": rep, "repeated": True}, None)
                # an explicit request for no output at all (a filtered candidate list that came out empty) is not "all"
                rr = sim.simulate(si, [])
                acc.tick("executions"); acc.tick("transitions")
                if list(rr.outputs) != [] or rr.array.shape != (1, 0):
                    acc.violation("explicit_output_order", {**base, "input": i, "outputs": []},
                                  {"returned_outputs": len(rr.outputs)})
                sel = outs[::-1][:3]
                rr = sim.simulate(si, [lw.State(list(o)) for o in sel])
                acc.tick("executions"); acc.tick("transitions")
                w = [ref_amp(uf, hin, hout, n_loss, i, o) for o in sel]
                if [tuple(o.s) for o in rr.outputs] != sel or np.abs(rr.array[0] - w).max() > TOL:
                    acc.violation("explicit_output_order", {**base, "input": i, "outputs": sel}, None)
    # -- deviations: every invalid call must be refused, not computed
    good = [0] * nv
    if nv:
        good[0] = 1
    bad_calls = [
        ("wrong_length+1", lambda: sim.simulate(lw.State(good + [0]))),
        ("wrong_length-1", lambda: sim.simulate(lw.State(good[:-1]))) if nv else None,
        ("negative", lambda: sim.simulate(lw.State([-1] + good[1:]))) if nv else None,
        ("float", lambda: sim.simulate(lw.State([1.0] + good[1:]))) if nv else None,
        ("bool", lambda: sim.simulate(lw.State([True] + good[1:]))) if nv else None,
        ("not_state", lambda: sim.simulate([good])),
        ("list_good_then_short", lambda: sim.simulate([lw.State(good), lw.State(good[:-1])])) if nv else None,
        ("list_short_then_good", lambda: sim.simulate([lw.State(good[:-1]), lw.State(good)])) if nv else None,
        ("list_good_then_long", lambda: sim.simulate([lw.State(good), lw.State(good + [0])], [lw.State(good)])),
        ("outputs_good_then_short", lambda: sim.simulate(lw.State(good), [lw.State(good), lw.State(good[:-1])])) if nv else None,
        ("mixed_photon_inputs", lambda: sim.simulate([lw.State(good), lw.State([2] + good[1:])])) if nv else None,
        ("mixed_inputs_with_matching_mixed_outputs",
         lambda: sim.simulate([lw.State(good), lw.State([2] + good[1:])], [lw.State(good), lw.State([2] + good[1:])])) if nv else None,
        ("in_out_photon_mismatch", lambda: sim.simulate(lw.State(good), [lw.State([2] + good[1:])])) if nv else None,
        ("output_wrong_length", lambda: sim.simulate(lw.State(good), [lw.State(good + [0])])),
        ("output_not_state", lambda: sim.simulate(lw.State(good), [good])),
        ("output_negative", lambda: sim.simulate(lw.State(good), [lw.State([-1, 2] + good[2:])])) if nv >= 2 else None,
    ]
    for item in bad_calls:
        if item is None:
            continue
        label, call = item
        acc.tick("executions"); acc.tick("transitions")
        try:
            call()
        except REFUSALS:
            acc.tick("rejected_calls")
            acc.outcome("refused:" + label)
            continue
        except Exception as e:  # noqa: BLE001
            acc.violation("invalid_input_wrong_error", {**base, "call": label}, {"error": repr(e)})
            continue
        acc.violation("invalid_input_computed", {**base, "call": label}, None)
    acc.outcome("circuit:loss=%d:heralds=%d" % (n_loss, len(hin)))
    acc.sample({"recipe": recipe["name"], "ops": recipe["ops"], "max_photons": maxph}, limit=2)


def check_bunched(env, acc):
    """Two modes, 13..18 photons: the product of occupation factorials leaves the 64-bit range."""
    c = lw.Circuit(2)
    c.bs(0, reflectivity=env.R[1]); c.ps(0, env.PH[0]); c.bs(0, reflectivity=env.R2, convention="H")
    U = c.U_full
    sim = emu.Simulator(c)
    for vin in ((13, 0), (0, 16), (9, 9), (12, 1)):
        case = {"scenario": "bunched", "input": vin, "seed": env.seed}
        acc.tick("executions"); acc.tick("transitions")
        ref = ref_fock.evolve_poly(U, vin)
        try:
            res = sim.simulate(lw.State(list(vin)))
        except Exception as e:  # noqa: BLE001
            acc.violation("valid_input_raises", case, {"error": repr(e), "cause": repr(e.__cause__)})
            continue
        for b, o in enumerate(res.outputs):
            w = ref.get(tuple(o.s), 0)
            if abs(res.array[0, b] - w) > 1e-9:
                acc.violation("amplitude", {**case, "output": tuple(o.s)}, {"impl": complex(res.array[0, b]), "ref": complex(w)})
                break
        acc.state("bunched", vin); acc.nontriv("bunched", vin)


def check_reuse(env, acc):
    """One Simulator object reused while the circuit's parameters move by tiny and by large steps."""
    par = lw.Parameter(env.PH[0])
    r = lw.Parameter(env.R[1])
    c = lw.Circuit(3)
    c.bs(0, reflectivity=r); c.ps(1, par); c.bs(1, reflectivity=env.R2, convention="H"); c.bs(0); c.herald(1, 2, 0)
    sim = emu.Simulator(c)
    ins = [lw.State([1, 1]), lw.State([2, 0])]
    steps = [0.0, 1e-3, 1e-5, 1e-7, -1e-6, 0.5, 3e-6, 1e-8]
    for k, dphi in enumerate(steps):
        par.set(par.get() + dphi)
        if k % 3 == 2:
            r.set(r.get() + 1e-6)
        acc.tick("executions"); acc.tick("transitions")
        res = sim.simulate(ins)
        uf, h = c.U_full, c.heralds
        for a, i in enumerate(ins):
            for b, o in enumerate(res.outputs):
                w = ref_amp(uf, h["input"], h["output"], 0, tuple(i.s), tuple(o.s))
                if abs(res.array[a, b] - w) > 1e-10:
                    acc.violation("amplitude_after_small_parameter_change",
                                  {"scenario": "simulator_reuse", "step": k, "nudges": steps[: k + 1], "seed": env.seed},
                                  {"impl": complex(res.array[a, b]), "ref": complex(w)})
                    return
    acc.state("reuse")


def run(tier, seed):
    env = Env(seed)
    fam = emulator_family(env, tier)
    maxph = {2: 5, 3: 3, 4: 2} if tier == "quick" else {2: 5, 3: 4, 4: 3, 5: 2}

    def shard_fn(recipes):
        acc = kernel.Acc()
        for rc in recipes:
            check_circuit(rc, env, maxph[rc["n"]], acc)
            check_circuit(rc, env, min(2, maxph[rc["n"]]), acc, late=True)
        return acc

    acc = kernel.pmap(shard_fn, kernel.interleave(fam, kernel.NPROC * 2))
    lay = herald_layout_family(env, tier)

    def shard_lay(recipes):
        a = kernel.Acc()
        for rc in recipes:
            check_circuit(rc, env, 2 if tier == "quick" else 3, a)
        return a

    acc.merge(kernel.pmap(shard_lay, kernel.interleave(lay, kernel.NPROC * 2)))
    ra = kernel.Acc(); check_reuse(env, ra); check_bunched(env, ra); acc.merge(ra)
    meta = {
        "rule": "every circuit recipe of the family (n in 2..4 x 5 loss placements incl. loss 0 and 1 x 7 herald "
                "layouts incl. in!=out and descending declaration + internal ancillas from heralded subs; plus EVERY "
                "layout of <= 2 heralds on 3 modes (4 in thorough): ordered input modes x ordered output modes x photon "
                "numbers {0,1,2}, and every mode heralded on 2 and 3 modes) x every "
                "Fock input on the visible modes up to the photon bound (vacuum and bunched included) x call shapes "
                "{list of all inputs/outputs None; single State x every single explicit output; 3-element output "
                "list} + 11 invalid calls; amplitudes compared with permanent/sqrt(factorials) computed independently "
                "(Ryser, cross-checked against the definition and a polynomial expansion). distinct_nontrivial = "
                "(circuit, photon number) pairs with >=1 photon and a non-zero amplitude.",
        "exhaustive": True,
        "bounds": {"circuits": len(fam), "herald_layout_circuits": len(lay), "max_visible_photons": maxph, "n_modes": [2, 3, 4]},
        "assumptions": ["U_full and heralds as reported by the circuit are the subject (their correctness is C01/C02)"],
    }
    return acc, meta


def replay(w, acc):
    case = w["case"]
    env = Env(case.get("seed", 0))
    if case.get("scenario") == "bunched":
        check_bunched(env, acc)
        return
    if case.get("scenario") == "simulator_reuse":
        check_reuse(env, acc)
        return
    rc = case["recipe"]
    check_circuit(rc, env, 3 if rc["n"] < 4 else 2, acc, late=bool(case.get("simulator_created_before_circuit_was_built")))
