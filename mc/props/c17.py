"""C17 — result containers index consistently and mappings conserve weight
(exhaustive enumeration of small result contents)."""
from __future__ import annotations

import itertools

import numpy as np

import lightworks as lw
from lightworks.emulator.results import SamplingResult, SimulationResult

from .. import kernel, ref_fock
from ..circuit_ops import Env


def image(state, kind, invert):
    if kind == "threshold":
        o = tuple(1 if s >= 1 else 0 for s in state)
    else:
        o = tuple(s % 2 for s in state)
    return tuple(1 - s for s in o) if invert else o


def valuations(ni, no, env):
    """injective fingerprint valuation + one with zeros/equal values"""
    a = np.array([[1.0 + 10 * i + 0.37 * j + 0.011 * i * j for j in range(no)] for i in range(ni)])
    b = np.array([[(0.0 if (i + j) % 2 else 0.25) for j in range(no)] for i in range(ni)])
    # weights spread over 18 orders of magnitude (rare events next to likely ones; one all-small row)
    t = np.array([[(1 + 0.37 * j + 0.011 * i * j) * 10.0 ** (-3 * ((2 * i + j) % 7) - (9 if i == 1 else 0)) for j in range(no)]
                  for i in range(ni)])
    return [("injective", a), ("zeros_equal", b), ("tiny", t)]


def check_simulation_result(ins, outs, env, acc):
    S = lw.State
    base_case = {"inputs": ins, "outputs": outs, "seed": env.seed}
    for vlabel, arr in valuations(len(ins), len(outs), env):
        for rtype in ("probability", "probability_amplitude"):
            vals = arr if rtype == "probability" else arr * np.exp(1j * (0.3 + arr))
            case = {**base_case, "values": vlabel, "result_type": rtype}
            acc.tick("executions"); acc.tick("transitions")
            given = vals.copy()
            r = SimulationResult(given, rtype, inputs=[S(list(i)) for i in ins], outputs=[S(list(o)) for o in outs])
            given[:] = -7          # the caller's array is the caller's: overwriting it afterwards must not reach the result
            if [tuple(s.s) for s in r.inputs] != list(ins) or [tuple(s.s) for s in r.outputs] != list(outs):
                acc.violation("input_output_order", case, None)
                continue
            if not np.array_equal(r.array, vals):
                acc.violation("array_differs_from_given", case, None)
            ok = True
            why = None
            for a, i in enumerate(ins):
                for b, o in enumerate(outs):
                    v = vals[a, b]
                    try:
                        if r[S(list(i)), S(list(o))] != v or r[S(list(i))][S(list(o))] != v or r.array[a, b] != v:
                            ok = False
                    except Exception as e:  # noqa: BLE001
                        ok, why = False, {"input": i, "output": o, "value": complex(v), "error": repr(e)}
            if not ok:
                acc.violation("indexing_inconsistent", case, why)
                continue
            # read-only views (dataframe with two thresholds, printing) must leave every access path unchanged
            import contextlib, io
            if len(ins) + len(outs) <= 3 or (len(ins) * 7 + len(outs) * 3 + sum(map(sum, outs))) % 11 == 0:
                with contextlib.redirect_stdout(io.StringIO()):
                    r.display_as_dataframe()
                    r.display_as_dataframe(threshold=0.3, conv_to_probability=(vlabel == "injective"))
                    r.print_outputs()
                    if len(ins) + len(outs) <= 3 and vlabel != "tiny":
                        import matplotlib.pyplot as plt
                        r.plot(conv_to_probability=(vlabel == "injective"), state_labels={S(list(outs[0])): "first"})
                        plt.close("all")
                acc.tick("display_calls")
            ok2 = np.array_equal(r.array, vals)
            for a, i in enumerate(ins):
                for b, o in enumerate(outs):
                    try:
                        if r[S(list(i)), S(list(o))] != vals[a, b] or r[S(list(i))][S(list(o))] != vals[a, b]:
                            ok2 = False
                    except Exception:  # noqa: BLE001
                        ok2 = False
            if not ok2:
                acc.violation("result_changed_by_displaying_it", case, None)
                continue
            for kind in ("threshold", "parity"):
                for inv in (False, True):
                    fn = r.apply_threshold_mapping if kind == "threshold" else r.apply_parity_mapping
                    c2 = {**case, "mapping": kind, "invert": inv}
                    if rtype == "probability_amplitude":
                        try:
                            fn(invert=inv)
                            acc.violation("mapping_accepted_for_amplitudes", c2, None)
                        except ValueError:
                            acc.tick("rejected_calls")
                        continue
                    acc.tick("executions"); acc.tick("transitions")
                    m = fn(invert=inv)
                    check_mapped(m, ins, outs, vals, kind, inv, c2, acc, 1)
                    fn2 = m.apply_threshold_mapping if kind == "threshold" else m.apply_parity_mapping
                    m2 = fn2(invert=inv)
                    outs1 = [tuple(o.s) for o in m.outputs]
                    check_mapped(m2, ins, outs1, m.array, kind, inv, {**c2, "applied": "twice"}, acc, 2)
            acc.state(len(ins), len(outs), vlabel, rtype)
    if len({image(o, "parity", False) for o in outs}) < len(outs):
        acc.nontriv(ins, outs)
    acc.outcome("%dx%d" % (len(ins), len(outs)))


def check_mapped(m, ins, outs, vals, kind, inv, case, acc, times):
    S = lw.State
    want = {}
    for a, i in enumerate(ins):
        row = {}
        for b, o in enumerate(outs):
            k = image(o, kind, inv)
            row[k] = row.get(k, 0.0) + vals[a, b]
        want[i] = row
    all_imgs = {k for row in want.values() for k in row}
    mo = [tuple(o.s) for o in m.outputs]
    if sorted(mo) != sorted(all_imgs) or len(set(mo)) != len(mo):
        acc.violation("mapped_output_set", case, {"impl": mo, "ref": sorted(all_imgs)})
        return
    if [tuple(i.s) for i in m.inputs] != list(ins) or m.array.shape != (len(ins), len(mo)):
        acc.violation("mapped_inputs_or_shape", case, None)
        return
    for a, i in enumerate(ins):
        for b, o in enumerate(mo):
            w = want[i].get(o, 0.0)
            try:
                g = m[S(list(i)), S(list(o))]
                bad = abs(g - w) > 1e-13 * abs(w) or m.array[a, b] != g or m[S(list(i))][S(list(o))] != g
            except Exception as e:  # noqa: BLE001
                acc.violation("mapped_value", case, {"input": i, "output": o, "error": repr(e), "ref": float(w)})
                return
            if bad:
                acc.violation("mapped_value", case, {"input": i, "output": o, "impl": float(g), "ref": float(w)})
                return
        if abs(m.array[a].sum() - vals[a].sum()) > 1e-13 * abs(vals[a].sum()):
            acc.violation("input_total_not_conserved", case, {"input": i})
            return


def check_sampling_result(items, env, acc):
    S = lw.State
    case = {"counts": items, "seed": env.seed}
    acc.tick("executions"); acc.tick("transitions")
    d = {S(list(k)): v for k, v in items}
    inp = S([1, 0] + [0] * (len(items[0][0]) - 2)) if items else S([1, 0])
    r = SamplingResult(dict(d), inp)
    if dict(r) != d or [tuple(o.s) for o in r.outputs] != [k for k, _ in items] or r.input != inp:
        acc.violation("sampling_result_round_trip", case, None)
    for k, v in items:
        if r[S(list(k))] != v:
            acc.violation("sampling_result_indexing", case, None)
    # the same contents keyed by states whose occupations are numpy integers (as produced from arrays)
    dn = {S([np.int64(x) for x in k]): v for k, v in items}
    try:
        rn = SamplingResult(dict(dn), inp)
        if any(rn[S(list(k))] != v for k, v in items) or {tuple(int(x) for x in k.s): v for k, v in rn.items()} != dict(items):
            acc.violation("sampling_result_numpy_int_states", case, None)
        for kind in ("threshold", "parity"):
            fn = rn.apply_threshold_mapping if kind == "threshold" else rn.apply_parity_mapping
            got = {}
            for k, v in fn().items():
                t = tuple(int(x) for x in k.s)
                if t in got:
                    acc.violation("sampling_result_numpy_int_states", {**case, "mapping": kind}, {"duplicate_key": t})
                got[t] = got.get(t, 0) + v
            want = {}
            for k, v in items:
                im = image(k, kind, False)
                want[im] = want.get(im, 0) + v
            if got != want:
                acc.violation("sampling_result_numpy_int_states", {**case, "mapping": kind}, {"impl": got, "ref": want})
    except KeyError as e:
        acc.violation("sampling_result_numpy_int_states", case, {"error": repr(e)})
    import contextlib, io
    with contextlib.redirect_stdout(io.StringIO()):
        r.display_as_dataframe(); r.print_outputs()
        if len(items) <= 2:
            import matplotlib.pyplot as plt
            r.plot(state_labels={k: "first" for k in list(d)[:1]})
            plt.close("all")
    if dict(r) != d:
        acc.violation("result_changed_by_displaying_it", case, None)
    for kind in ("threshold", "parity"):
        for inv in (False, True):
            fn = r.apply_threshold_mapping if kind == "threshold" else r.apply_parity_mapping
            m = fn(invert=inv)
            want = {}
            for k, v in items:
                im = image(k, kind, inv)
                want[im] = want.get(im, 0) + v
            got = {tuple(k.s): v for k, v in m.items()}
            if got != want or sum(got.values()) != sum(v for _, v in items) or m.input != inp:
                acc.violation("sampling_mapping", {**case, "mapping": kind, "invert": inv}, {"impl": got, "ref": want})
    acc.state("SR", tuple(items))
    if len(items) > 1:
        acc.nontriv("SR", tuple(items))


def check_real_amplitudes(env, acc):
    """A result declared as amplitudes is refused whatever the dtype of its numbers (a real orthogonal transform
    has real amplitudes; integers 0/1 are amplitudes of a permutation)."""
    S = lw.State
    ins = [(1, 0), (0, 1)]
    outs = [(1, 0), (0, 1)]
    for label, arr in (("float", np.array([[0.6, 0.8], [0.8, -0.6]])), ("int", np.array([[0, 1], [1, 0]])),
                       ("complex_with_zero_imag", np.array([[0.6 + 0j, 0.8], [0.8, -0.6]]))):
        r = SimulationResult(arr, "probability_amplitude", inputs=[S(list(i)) for i in ins], outputs=[S(list(o)) for o in outs])
        for kind in ("threshold", "parity"):
            for inv in (False, True):
                acc.tick("executions"); acc.tick("transitions")
                try:
                    (r.apply_threshold_mapping if kind == "threshold" else r.apply_parity_mapping)(invert=inv)
                    acc.violation("mapping_accepted_for_amplitudes", {"scenario": "real_amplitudes", "values": label,
                                                                      "mapping": kind, "invert": inv, "seed": env.seed}, None)
                except ValueError:
                    acc.tick("rejected_calls")
        acc.state("real_amplitudes", label)


def check_repeated_inputs(env, acc):
    """The same input listed more than once (what Analyzer.analyze([a, b, a]) produces), with equal rows for equal
    inputs so that every access path is unambiguous: a mapping must keep every row, in the order of the input list."""
    S = lw.State
    outs = [(2, 0, 0), (1, 1, 0), (0, 1, 1), (0, 0, 2), (1, 0, 1), (3, 0, 0)]
    rows = {(1, 1, 0): [0.05, 0.2, 0.1, 0.15, 0.3, 0.2], (0, 1, 1): [0.4, 0.0, 0.25, 0.05, 0.1, 0.2],
            (2, 0, 0): [0.0, 0.5, 0.0, 0.5, 0.0, 0.0]}
    a, b, c = (1, 1, 0), (0, 1, 1), (2, 0, 0)
    for ins in ([a, b, a], [a, a, b], [b, a, a, c], [a, a], [c, b, c, b]):
        vals = np.array([rows[i] for i in ins])
        r = SimulationResult(vals.copy(), "probability", inputs=[S(list(i)) for i in ins], outputs=[S(list(o)) for o in outs])
        for kind in ("threshold", "parity"):
            for inv in (False, True):
                case = {"scenario": "repeated_inputs", "inputs": ins, "mapping": kind, "invert": inv, "seed": env.seed}
                acc.tick("executions"); acc.tick("transitions")
                m = (r.apply_threshold_mapping if kind == "threshold" else r.apply_parity_mapping)(invert=inv)
                mo = [tuple(o.s) for o in m.outputs]
                if [tuple(i.s) for i in m.inputs] != ins or m.array.shape != (len(ins), len(mo)):
                    acc.violation("mapped_inputs_or_shape", case, None)
                    continue
                for k, i in enumerate(ins):
                    want = {}
                    for o, v in zip(outs, rows[i]):
                        want[image(o, kind, inv)] = want.get(image(o, kind, inv), 0.0) + v
                    got = {o: float(m.array[k, j]) for j, o in enumerate(mo)}
                    if any(abs(got.get(o, 0.0) - want.get(o, 0.0)) > 1e-12 for o in set(got) | set(want)) \
                            or any(abs(float(m[S(list(i)), S(list(o))]) - want.get(o, 0.0)) > 1e-12 for o in mo):
                        acc.violation("mapped_value", {**case, "row": k}, {"impl": got, "ref": want})
                        break
                acc.state("repeated", tuple(ins), kind, inv)
                acc.nontriv("repeated", tuple(ins), kind, inv)


def check_ambiguous_duplicates(env, acc):
    """A state listed twice with *different* values: the array cannot agree with both entries, but pair indexing and
    nested indexing must still return the same value as each other (a consequence of the property that stays defined),
    and that value must be one of the array's entries for the pair."""
    S = lw.State
    states = [(1, 0, 1), (0, 1, 1), (2, 0, 0), (0, 2, 0)]
    n = 0
    for rtype, vals in (("probability", [0.125, 0.25, 0.5, 0.0625, 0.375, 0.03125, 0.75, 0.015625, 0.09375]),
                        ("probability_amplitude", [0.1 + 0.2j, 0.3, 0.4, 0.5j, 0.6, 0.7 - 0.1j, -0.2, 0.15j, 0.05])):
        for ins in itertools.product(states[:3], repeat=2):
            for outs in itertools.product(states[1:], repeat=3):
                if len(set(ins)) == 2 and len(set(outs)) == 3:
                    continue            # no repeats: covered by the main stage
                arr = np.array(vals[: 2 * 3]).reshape(2, 3) + np.arange(2).reshape(2, 1) * 0.001
                r = SimulationResult(arr.copy(), rtype, inputs=[S(list(i)) for i in ins], outputs=[S(list(o)) for o in outs])
                case = {"scenario": "ambiguous_duplicates", "inputs": ins, "outputs": outs, "type": rtype, "seed": env.seed}
                acc.tick("executions"); acc.tick("transitions"); n += 1
                for i in set(ins):
                    for o in set(outs):
                        pair, nested = r[S(list(i)), S(list(o))], r[S(list(i))][S(list(o))]
                        cands = [arr[a, b] for a, x in enumerate(ins) for b, y in enumerate(outs) if x == i and y == o]
                        if pair != nested or not any(pair == c for c in cands):
                            acc.violation("pair_and_nested_indexing_disagree", case,
                                          {"input": i, "output": o, "pair": complex(pair), "nested": complex(nested)})
                acc.state("dup", ins, outs, rtype)
    return n


def run(tier, seed):
    env = Env(seed)
    st2 = ref_fock.basis_upto(2, 3)              # 10 states over 2 modes
    st3 = ref_fock.basis_upto(3, 2)              # 10 states over 3 modes
    jobs = []
    max_in = 2
    for states, max_out in ((st2, 3), (st3, 2 if tier == "quick" else 3)):
        in_sel = [s for k in range(1, max_in + 1) for s in itertools.permutations(states, k)]
        out_sel = [s for k in range(1, max_out + 1) for s in itertools.permutations(states, k)]
        if tier == "quick":
            in_sel = in_sel[::3]
        for ins in in_sel:
            for outs in out_sel:
                jobs.append(("sim", ins, outs))
    # sampling results: every ordered selection of <= 3 states with counts from {1,2,5}
    for states in (st2[:7], st3[:6]):
        for k in range(0, 4):
            for sel in itertools.permutations(states, k):
                for cnts in itertools.product((1, 2, 5), repeat=k):
                    if k == 3 and tier == "quick" and cnts[0] != 1:
                        continue
                    jobs.append(("samp", tuple(zip(sel, cnts))))

    def shard_fn(js):
        acc = kernel.Acc()
        for j in js:
            if j[0] == "sim":
                check_simulation_result(j[1], j[2], env, acc)
            else:
                check_sampling_result(j[1], env, acc)
        if js and js[0][0] == "sim":
            acc.sample({"inputs": js[0][1], "outputs": js[0][2],
                        "valuations": ["injective fingerprint", "zeros and equal values"]}, limit=1)
        return acc

    acc = kernel.pmap(shard_fn, kernel.interleave(jobs, kernel.NPROC * 4))
    rep = kernel.Acc(); check_repeated_inputs(env, rep); check_real_amplitudes(env, rep); check_ambiguous_duplicates(env, rep); acc.merge(rep)
    meta = {
        "rule": "SimulationResult: inputs = ordered selections of <= 2 and outputs = ordered selections of <= 3 distinct Fock "
                "states (2 modes <= 3 photons; 3 modes <= 2 photons), two valuations (injective fingerprint so that any "
                "misplacement shows; zeros and equal values), real and complex; pair / nested / array indexing, both "
                "mappings x invert x applied once and twice against the per-mode image with coinciding images added and "
                "per-input totals; amplitude results must refuse mappings. SamplingResult: every ordered selection of "
                "<= 3 states with counts in {1,2,5}. distinct_nontrivial = contents whose outputs have coinciding images.",
        "exhaustive": True,
        "bounds": {"containers": len(jobs)},
        "assumptions": ["lists with repeated states: equal rows for the mappings stage; with different values only "
                        "pair == nested indexing is required (a dict-backed container cannot give the array's value for both)"],
    }
    return acc, meta


def replay(w, acc):
    from .c01 import _tup
    case = w["case"]
    env = Env(case.get("seed", 0))
    if case.get("scenario") == "real_amplitudes":
        check_real_amplitudes(env, acc)
    elif case.get("scenario") == "ambiguous_duplicates":
        check_ambiguous_duplicates(env, acc)
    elif case.get("scenario") == "repeated_inputs":
        check_repeated_inputs(env, acc)
    elif "counts" in case:
        check_sampling_result(tuple((tuple(k), v) for k, v in case["counts"]), env, acc)
    else:
        check_simulation_result(tuple(tuple(i) for i in case["inputs"]), tuple(tuple(o) for o in case["outputs"]), env, acc)
