"""C02 — adding a sub-circuit wires it in order; heralded modes become private
ancillas (E1 over parent programs x sub-circuit library)."""
from __future__ import annotations

import itertools

import numpy as np

import lightworks as lw

from .. import kernel
from ..circuit_ops import Env, full_fingerprint
from ..ref_circuit import RefCircuit, ScatterError, compare_scatter, impl_scatter

TOL = 1e-9

SUB_NAMES = ["bs2", "u3", "h3mid", "h3io", "h4desc", "h4two", "nest", "lossy", "h2zero", "grp", "h5three", "grpplain", "bar2", "h3swapend"]


def make_sub(name, env):
    """Fresh (impl, ref) pair for a library sub-circuit: one member per shape
    the bookkeeping distinguishes."""
    U = env.Usub
    if name.startswith("sys:"):  # systematic family: T modes, heralds (in = out) on the listed positions
        _, T, pos = name.split(":")
        T = int(T); pos = [int(x) for x in pos.split(",")] if pos else []
        u = kernel.haar(T, env.seed + 1000 + 17 * T + sum((i + 1) * (q + 1) for i, q in enumerate(pos)))
        c = lw.Unitary(u.copy()); r = RefCircuit(T); r.unitary(0, u)
        for i, q in enumerate(pos):
            ph = (1, 0, 1)[i % 3]
            c.herald(ph, q, q); r.herald(ph, q, q)
        return c, r
    if name == "bs2":            # no heralds
        c = lw.Circuit(2); c.bs(0, reflectivity=env.R[1]); r = RefCircuit(2); r.bs(0, 1, env.R[1])
    elif name == "u3":
        c = lw.Unitary(U[0].copy()); r = RefCircuit(3); r.unitary(0, U[0])
    elif name == "h3mid":        # 1-photon herald in the middle
        c = lw.Unitary(U[1].copy()); c.herald(1, 1); r = RefCircuit(3); r.unitary(0, U[1]); r.herald(1, 1, 1)
    elif name == "h3io":         # herald input 0 -> output 2
        c = lw.Unitary(U[4].copy()); c.herald(1, 0, 2); r = RefCircuit(3); r.unitary(0, U[4]); r.herald(1, 0, 2)
    elif name == "h4desc":       # two heralds, declared descending, different photons, in != out
        c = lw.Unitary(U[2].copy()); c.herald(1, 3, 0); c.herald(0, 1, 2)
        r = RefCircuit(4); r.unitary(0, U[2]); r.herald(1, 3, 0); r.herald(0, 1, 2)
    elif name == "h4two":        # two photon-carrying heralds
        c = lw.Unitary(U[3].copy()); c.herald(2, 2, 1); c.herald(1, 1, 3)
        r = RefCircuit(4); r.unitary(0, U[3]); r.herald(2, 2, 1); r.herald(1, 1, 3)
    elif name == "nest":         # heralded sub inside a circuit that then gets its own in!=out herald
        c = lw.Circuit(3); r = RefCircuit(3)
        s, sr = make_sub("h3mid", env); c.add(s, 1); r.add(sr, 1)
        c.bs(0, 2, reflectivity=env.R2); r.bs(0, 2, env.R2)
        c.herald(1, 2, 0); r.herald(1, 2, 0)
    elif name == "lossy":
        c = lw.Circuit(3); r = RefCircuit(3)
        c.bs(0, reflectivity=env.R[1]); r.bs(0, 1, env.R[1])
        c.loss(1, env.L[1]); r.loss(1, env.L[1])
        c.bs(1, reflectivity=env.R2, convention="H"); r.bs(1, 2, env.R2, "H")
        c.herald(1, 0, 1); r.herald(1, 0, 1)
    elif name == "h3swapend":    # in != out herald, and the block's own last component is a mode swap
        c = lw.Circuit(3); r = RefCircuit(3)
        c.bs(0, reflectivity=env.R[1]); r.bs(0, 1, env.R[1])
        c.bs(1, reflectivity=env.R2, convention="H"); r.bs(1, 2, env.R2, "H")
        c.mode_swaps({0: 1, 1: 2, 2: 0}); r.swaps({0: 1, 1: 2, 2: 0})
        c.herald(1, 0, 1); r.herald(1, 0, 1)
    elif name == "h2zero":       # vacuum herald only, in != out
        c = lw.Unitary(U[5].copy()); c.herald(0, 2, 0); r = RefCircuit(3); r.unitary(0, U[5]); r.herald(0, 2, 0)
    elif name == "grp":          # a plain circuit holding a group and a heralded group
        c = lw.Circuit(3); r = RefCircuit(3)
        s, sr = make_sub("bs2", env); c.add(s, 1, group=True); r.add(sr, 1)
        s, sr = make_sub("h3io", env); c.add(s, 0); r.add(sr, 0)
        c.ps(2, env.PH[0]); r.ps(2, env.PH[0])
    elif name == "grpplain":     # no heralds (so it is not unpacked when added): a grouped block at an offset > 0
        c = lw.Circuit(3); r = RefCircuit(3)
        s, sr = make_sub("bs2", env); c.add(s, 1, group=True); r.add(sr, 1)
        c.ps(0, env.PH[1]); r.ps(0, env.PH[1])
        c.barrier([1, 2])
    elif name == "h2all":        # every mode heralded: the block has no visible mode at all
        c = lw.Circuit(2); r = RefCircuit(2)
        c.bs(0, reflectivity=env.R[1]); r.bs(0, 1, env.R[1])
        c.herald(1, 0); r.herald(1, 0, 0)
        c.herald(0, 1); r.herald(0, 1, 1)
    elif name == "empty2":       # a block without components
        c = lw.Circuit(2); r = RefCircuit(2)
    elif name == "bar2":         # holds a barrier (a list of modes that must move with the block)
        c = lw.Circuit(2); r = RefCircuit(2)
        c.bs(0, reflectivity=env.R2); r.bs(0, 1, env.R2)
        c.barrier([0, 1])
        c.ps(1, env.PH[2]); r.ps(1, env.PH[2])
    elif name == "h5three":      # three heralds (1, 0, 1 photons), one of them in != out: 3 ancillas at once
        u = kernel.haar(5, env.seed + 555)
        c = lw.Unitary(u.copy()); c.herald(1, 1, 1); c.herald(0, 4, 2); c.herald(1, 3, 4)
        r = RefCircuit(5); r.unitary(0, u); r.herald(1, 1, 1); r.herald(0, 4, 2); r.herald(1, 3, 4)
    else:
        raise KeyError(name)
    return c, r


def systematic_subs(sizes=(3, 4, 5), max_heralds=3):
    """Every herald-position set of size 1..max_heralds on T modes that leaves >= 1 visible mode."""
    out = []
    for T in sizes:
        for k in range(1, min(max_heralds, T - 1) + 1):
            for pos in itertools.combinations(range(T), k):
                out.append("sys:%d:%s" % (T, ",".join(map(str, pos))))
    return out


def alphabet(n, subs, rich=True):
    o = []
    for nm in subs:
        for m in range(-1, n + 1):
            for g in (False, True):
                o.append(("add", nm, m, g))
    pairs = [(0, 1), (1, 2), (0, n - 1), (n - 1, 0)] if n >= 3 else [(0, 1), (1, 0)]
    for a, b in pairs:
        o.append(("bs", a, b))
    o.append(("ps", n - 1))
    o.append(("bsl", n - 1, 0))          # beam splitter with loss: loss elements must land on the same user modes
    o.append(("psl", n - 1))
    o.append(("sw", ((0, n - 1), (n - 1, 0))))
    if rich and n >= 3:
        o.append(("sw", ((0, 1), (1, 2), (2, 0))))
    for i, ou in [(0, 0), (1, n - 1), (n - 1, 1)]:
        o.append(("her", 1, i, ou))
    o.append(("bsnp", 1, n - 1))         # numpy-integer mode numbers are accepted like ints
    o.append(("her", 1, 1, n - 1, "np"))  # ... also as herald modes
    for nm in subs[:4]:
        o.append(("add", nm, 1, False, "np"))   # ... and as the position of an addition (unsigned: arithmetic must not wrap)
        o.append(("add", nm, 0, False, "np"))
    o.append(("her1", 1, n - 1))         # single-mode form: output defaults to the input mode
    if rich:
        o.append(("her", 0, 0, 1))
        o.append(("her", 2, n, 0))       # out of range: refused
    return o


def run_program(n, prog, env, acc, sub_factory=make_sub):
    P, R = lw.Circuit(n), RefCircuit(n)
    case = {"n": n, "prog": prog, "seed": env.seed}
    legal_adds = 0
    for op in prog:
        k = op[0]
        if k == "add":
            s, sr = sub_factory(op[1], env)
            valid = R.can_add(sr, op[2])
            fp_s = full_fingerprint(s)
            fp_p = full_fingerprint(P) if not valid else None
            try:
                P.add(s, (np.uint8 if op[2] % 2 else np.int64)(op[2]) if len(op) > 4 else op[2], group=op[3])
                err = None
            except lw.ModeRangeError as e:
                err = e
            if full_fingerprint(s) != fp_s:
                acc.violation("argument_mutated", case, {"op": op, "n_modes_after": s.n_modes})
                return
            if valid and err is not None:
                acc.violation("legal_add_refused", case, {"op": op, "error": repr(err)})
                return
            if not valid and err is None:
                acc.violation("oversize_add_accepted", case, {"op": op})
                return
            if not valid:
                acc.tick("rejected_calls")
                if full_fingerprint(P) != fp_p:
                    acc.violation("rejected_add_changed_parent", case, {"op": op})
                    return
                continue
            R.add(sr, op[2])
            legal_adds += 1
        elif k == "bs":
            if not (R.in_range(op[1]) and R.in_range(op[2])):
                continue
            P.bs(op[1], op[2], reflectivity=env.R2); R.bs(op[1], op[2], env.R2)
        elif k == "ps":
            P.ps(op[1], env.PH[0]); R.ps(op[1], env.PH[0])
        elif k == "bsnp":
            P.bs(np.int64(op[1]), np.int32(op[2]), reflectivity=env.R[1], convention="H"); R.bs(op[1], op[2], env.R[1], "H")
        elif k == "her1":
            valid = R.can_herald(op[2], op[2])
            try:
                P.herald(op[1], op[2])
                ok = True
            except (ValueError, lw.ModeRangeError):
                ok = False
            if ok != valid:
                acc.violation("herald_legality", case, {"op": op, "accepted": ok, "legal": valid})
                return
            if ok:
                R.herald(op[1], op[2], op[2])
        elif k == "bsl":
            try:
                P.bs(op[1], op[2], reflectivity=env.R[1], loss=env.L2, convention="H")
            except lw.ModeRangeError as e:
                acc.violation("legal_component_refused", case, {"op": op, "error": repr(e)})
                return
            R.bs(op[1], op[2], env.R[1], "H"); R.loss(op[1], env.L2); R.loss(op[2], env.L2)
        elif k == "psl":
            try:
                P.ps(op[1], env.PH[1], loss=env.L[1])
            except lw.ModeRangeError as e:
                acc.violation("legal_component_refused", case, {"op": op, "error": repr(e)})
                return
            R.ps(op[1], env.PH[1]); R.loss(op[1], env.L[1])
        elif k == "sw":
            P.mode_swaps(dict(op[1])); R.swaps(dict(op[1]))
        elif k == "her":
            valid = R.can_herald(op[2], op[3])
            fp_p = full_fingerprint(P) if not valid else None
            try:
                if len(op) > 4:
                    P.herald(op[1], np.uint8(op[2]), np.int32(op[3]))
                else:
                    P.herald(op[1], op[2], op[3])
                ok = True
            except (ValueError, lw.ModeRangeError):
                ok = False
            if ok != valid:
                acc.violation("herald_legality", case, {"op": op, "accepted": ok, "legal": valid})
                return
            if not ok:
                acc.tick("rejected_calls")
                if full_fingerprint(P) != fp_p:
                    acc.violation("rejected_herald_changed_parent", case, {"op": op})
                    return
                continue
            R.herald(op[1], op[2], op[3])
        else:
            raise KeyError(op)
        if P.n_modes - len(P._internal_modes) != R.c:
            acc.violation("user_mode_count", case, {"op": op, "impl": P.n_modes - len(P._internal_modes),
                                                    "ref": R.c})
            return
    # ---- end-state oracle
    h = P.heralds
    acc.state(P.n_modes, tuple(sorted(P._internal_modes)), tuple(h["input"].items()),
              tuple(h["output"].items()))
    for m in P._internal_modes:
        if h["input"].get(m) is None or h["input"].get(m) != h["output"].get(m):
            acc.violation("ancilla_herald_mismatch", case, {"mode": m, "heralds": h})
            return
    want = sorted([e[2] for e in R.ext] + list(R.anc))
    if sorted(h["input"].values()) != want or sorted(h["output"].values()) != want:
        acc.violation("herald_photon_numbers", case, {"impl": h, "ref": want})
        return
    if P.input_modes != len(R.vis_in()):
        acc.violation("input_modes", case, {"impl": P.input_modes, "ref": len(R.vis_in())})
        return
    try:
        isc = impl_scatter(P)
    except ScatterError as e:
        acc.violation("herald_photon_numbers", case, {"error": str(e)})
        return
    except lw.CircuitCompilationError as e:
        acc.violation("does_not_compile", case, {"error": repr(e), "cause": repr(e.__cause__)})
        return
    verdict, wit = compare_scatter(isc, R.scatter(), TOL)
    if verdict == "wrong":
        acc.violation("wrong_wiring", case, wit)
    elif verdict == "inconclusive":
        acc.tick("inconclusive")
    acc.outcome("%s:adds=%d:anc=%d" % (verdict, legal_adds, len(R.anc)))
    if legal_adds and len(R.anc):
        acc.nontriv(np.round(isc[0], 9), isc[1], tuple(isc[2]))
    acc.tick("legal_end_states")


def explore(n, alpha, depth, env, tag, firsts=None, sub_factory=make_sub):
    alpha = list(alpha)

    def shard_fn(fs):
        acc = kernel.Acc()
        for prog in kernel.programs(alpha, depth, first=fs):
            acc.tick("programs"); acc.tick("transitions", len(prog))
            acc.tick("%s_depth%d" % (tag, len(prog)))
            run_program(n, prog, env, acc, sub_factory)
        if fs:
            acc.sample({"n": n, "prog": [fs[0], alpha[min(7, len(alpha) - 1)]]}, limit=1)
        return acc

    return kernel.pmap(shard_fn, kernel.interleave(firsts or alpha, kernel.NPROC * 4))


def run(tier, seed):
    env = Env(seed)
    acc = kernel.Acc()
    bounds = {}
    if tier == "quick":
        plan = [(4, SUB_NAMES, 2, True), (3, SUB_NAMES, 2, False), (5, SUB_NAMES, 2, False)]
    else:
        core = ["bs2", "h3mid", "h3io", "h4desc", "h4two", "nest", "lossy", "h5three"]
        plan = [(4, SUB_NAMES, 2, True), (3, SUB_NAMES, 2, True), (5, SUB_NAMES, 2, True),
                (4, core, 3, False), (3, core, 3, False)]
    for n, subs, depth, rich in plan:
        alpha = alphabet(n, subs, rich)
        a = explore(n, alpha, depth, env, "n%d" % n)
        bounds["n=%d depth=%d" % (n, depth)] = {"alphabet": len(alpha), "subs": list(subs),
                                               "programs": int(a.counts["programs"])}
        acc.merge(a)
    # ---- stage 1b (quick): two additions followed by one more operation (mode numbering after out-of-order adds)
    if tier == "quick":
        n3 = 5
        # "sys:4:0,3": ancillas at both ends of the block, so that the parent's list of ancillas is not in ascending
        # order after two additions; "u3" as third operation spans ancillas of both earlier additions
        adds = [("add", nm, m, False) for nm in ("h3mid", "h3io", "h4two", "bs2", "sys:4:0,3") for m in range(0, n3 - 1)]
        third = [o for o in alphabet(n3, ("h3mid",), True) if o[0] != "add" or o[2] in (0, 2)] \
            + [("add", "u3", m, False) for m in (0, 1, 2)]

        def shard_1b(firsts):
            a = kernel.Acc()
            for f in firsts:
                for g in adds:
                    for t in third:
                        a.tick("programs"); a.tick("transitions", 3); a.tick("n5_add_add_op")
                        run_program(n3, (f, g, t), env, a)
            return a
        a = kernel.pmap(shard_1b, kernel.interleave(adds, kernel.NPROC))
        bounds["n=5 add,add,op"] = {"adds": len(adds), "third_ops": len(third), "programs": int(a.counts["programs"])}
        acc.merge(a)
    # ---- stage 2: pairs/triples of additions over the systematic sub family: every relative position of every
    # existing ancilla to every new one (the prose of the property), without the other component kinds
    for n2, sizes, d2 in (((4, (3, 4, 5), 2),) if tier == "quick" else ((4, (3, 4, 5), 2), (5, (3, 4, 5), 2), (4, (3, 4), 3))):
        fam = systematic_subs(sizes, 3 if d2 == 2 else 2)
        alpha2 = [("add", nm, m, False) for nm in fam for m in range(0, n2)]
        a = explore(n2, alpha2, d2, env, "sys_n%d" % n2)
        bounds["systematic n=%d depth=%d" % (n2, d2)] = {"subs": len(fam), "alphabet": len(alpha2),
                                                         "programs": int(a.counts["programs"])}
        acc.merge(a)
    meta = {
        "rule": "every parent program of length <= depth over {add(sub, m, group) for every library sub, "
                "every m in -1..n and both group flags; bs incl. pairs straddling ancillas; ps; swaps "
                "across ancillas; herald in=out / in!=out / duplicate / out of range}; refused calls "
                "continue the program. Oracle: RefCircuit legality, user-mode count, ancilla herald "
                "bookkeeping, heralded amplitudes (scatter comparison), argument and refused-parent "
                "fingerprints. distinct_nontrivial = distinct scatter data of end states with >=1 legal "
                "add and >=1 ancilla. Stage 2: all sequences of <= 2 (3) additions of a systematic family: T in 3..5 "
                "modes with every set of <= 3 herald positions, at every placement.",
        "exhaustive": True,
        "bounds": bounds,
        "assumptions": ["Haar blocks and generic reals stand for all values (seed-varied)",
                        "amplitude witness search limited to <=3 visible photons (inconclusive counted)"],
    }
    return acc, meta


def replay(w, acc):
    from .c01 import _tup
    case = w["case"]
    run_program(case["n"], tuple(_tup(o) for o in case["prog"]), Env(case.get("seed", 0)), acc)
