"""C15 — state tomography reconstructs the prepared state (E1 over base-circuit
programs x inputs x callback orderings; the experiment callback is the harness)."""
from __future__ import annotations

import itertools

import numpy as np

import lightworks as lw
from lightworks import qubit
from lightworks.tomography import StateTomography
import lightworks.tomography.utils as tutils

from .. import kernel, ref_qubit as rq, tomo
from ..circuit_ops import Env, full_fingerprint

MEAS = {"X": [("H",)], "Y": [("S",), ("Z",), ("H",)], "Z": []}     # documented basis changes


def programs(env, tier):
    a1 = tomo.one_qubit_alphabet(env)
    out = []
    for g in a1:
        out.append((1, [(g, 0)]))
    for g, h in itertools.product(a1, repeat=2):
        out.append((1, [(g, 0), (h, 0)]))
    if tier == "thorough":
        for g, h, k in itertools.product(a1, repeat=3):
            out.append((1, [(g, 0), (h, 0), (k, 0)]))
    ent = [("CNOT",), ("CNOT", 0), ("CZ",), ("CNOT_Heralded",), ("CNOT_Heralded", 0), ("CZ_Heralded",), ("SWAP",)]
    lead = [(a1[0], a1[8]), (a1[9], a1[7]), (a1[1], a1[0])]
    trail = [(a1[4], a1[10]), (a1[11], a1[5]), (a1[7], a1[9])]
    if tier == "quick":
        lead, trail = lead[:2], trail[:2]
    for e in ent:
        for l in lead:
            for t in trail:
                out.append((2, [(l[0], 0), (l[1], 1), (e, 0), (t[0], 0), (t[1], 1)]))
    if tier == "thorough":     # two entanglers in a row, every ordered pair
        for e1, e2 in itertools.product(ent, repeat=2):
            out.append((2, [(a1[0], 0), (a1[9], 1), (e1, 0), (a1[4], 0), (a1[7], 1), (e2, 0), (a1[10], 0)]))
    # ancilla between the rails of a qubit (the measurement circuits are then added across it)
    anc = ("ANC", env.R2)
    out.append((1, [(anc, 0)]))
    out.append((1, [(a1[0], 0), (anc, 0), (a1[4], 0)]))
    out.append((2, [(a1[0], 0), (anc, 1), (("CNOT",), 0), (a1[10], 1)]))
    out.append((2, [(anc, 0), (a1[9], 1), (("CZ_Heralded",), 0), (anc, 1)]))
    anc2 = ("ANC2", env.R[1])
    out.append((1, [(a1[9], 0), (anc2, 0), (a1[4], 0)]))
    out.append((2, [(anc2, 1), (a1[0], 0), (("CNOT", 0), 0), (anc, 0)]))
    # heralds placed directly on the base circuit, at or below qubit modes (not through an added sub-circuit)
    out.append((2, [(a1[9], 0), (a1[0], 1), (("CNOT",), 0), (a1[10], 1), (("DHX",), 0)]))
    out.append((2, [(a1[0], 0), (("CZ_Heralded",), 0), (a1[7], 1), (("DHX",), 0)]))
    for w in ("DH0", "DHph", "DHmid"):
        out.append((1, [(a1[0], 0), (a1[4], 0), ((w,), 0)]))
        out.append((2, [(a1[0], 0), (a1[9], 1), (("CNOT",), 0), (a1[4], 0), (a1[7], 1), ((w,), 0)]))
    out.append((2, [(a1[9], 0), (a1[0], 1), (("CZ_Heralded",), 0), (a1[10], 1), (("DH0",), 0), (("DHmid",), 0)]))
    # nearly-basis states and weak entanglement: Pauli expectations that are small but not zero
    for th in (1e-6, 1e-5, 8e-4, 3e-3, 0.05):
        out.append((1, [(("Ry", th), 0)]))
        out.append((1, [(("Rx", th), 0), (a1[10], 0)]))
        out.append((1, [(a1[0], 0), (("Rz", th), 0)]))
    for th in (1e-5, 8e-4):
        out.append((2, [(("Ry", th), 0), (("CNOT",), 0)]))
        out.append((2, [(a1[0], 0), (("Rx", th), 1), (("CZ",), 0)]))
    # three qubits: GHZ-type and a CCZ state with complex phases
    out.append((3, [(a1[0], 0), (("CNOT_Heralded",), 0), (("CNOT",), 1), (a1[4], 2)]))
    out.append((3, [(a1[0], 0), (a1[0], 1), (a1[0], 2), (("CCZ",), 0), (a1[6], 0), (a1[9], 1), (a1[7], 2)]))
    if tier == "thorough":
        out.append((3, [(a1[9], 0), (a1[0], 1), (("CNOT", 0), 1), (("CZ_Heralded",), 0), (a1[11], 2), (a1[8], 0)]))
        out.append((3, [(a1[0], 0), (a1[0], 1), (a1[8], 2), (("CCNOT", 1), 0), (a1[4], 1)]))
    return out


def inputs_for(n, tier):
    ins = [(1, 0) * n, (0, 1) * n]
    if n == 2:
        ins.append((1, 0, 0, 1))
    return ins if tier == "thorough" or n == 1 else ins[:2]


def expected_circuit_keys(base_prog, n):
    """U_full of base + documented basis change per qubit, for all 3^n settings."""
    keys = {}
    for setting in itertools.product("XYZ", repeat=n):
        prog = list(base_prog)
        for q, s in enumerate(setting):
            prog += [(g, q) for g in MEAS[s]]
        c = tomo.build_base(n, prog)
        keys[setting] = c
    return keys


def run_tomography(n, prog, vin, env, acc, order=None, threshold=None):
    """threshold: run with the global sampler truncation threshold set to this value - the tomography works on the
    frequencies the callback returns and must not depend on an emulator setting."""
    if threshold is not None:
        old = lw.settings.sampler_probability_threshold
        lw.settings.sampler_probability_threshold = threshold
        try:
            return run_tomography(n, prog, vin, env, acc, order)
        finally:
            lw.settings.sampler_probability_threshold = old
    case = {"n_qubits": n, "prog": prog, "input": vin, "order": order, "seed": env.seed}
    if lw.settings.sampler_probability_threshold != 1e-9:
        case["sampler_probability_threshold"] = lw.settings.sampler_probability_threshold
    base = tomo.build_base(n, prog)
    fp0 = full_fingerprint(base)
    psi, nrm = tomo.qubit_state(base, n, vin)
    if nrm < 1e-9:
        return
    rho_exp = np.outer(psi, psi.conj())
    received = []

    scale = (1.0, 1.0 / 9, 4096.0)[(len(prog) + sum(vin)) % 3]      # raw success-probability weights / counts-like totals

    def experiment(circuits):
        received.extend(circuits)
        # every measurement setting comes back with its own total (different shot numbers per setting)
        return [tomo.outcome_frequencies(c, n, vin, scale * (1 + 0.37 * j)) for j, c in enumerate(circuits)]

    class Runner:           # the experiment as a method of the object that owns the apparatus
        def run(self, circuits):
            return experiment(circuits)

    callback = Runner().run if (len(prog) + sum(vin)) % 3 == 1 else experiment
    acc.tick("executions"); acc.tick("transitions")
    saved = None
    if order is not None:
        def fake_set(values, _o=order):
            uniq = list(dict.fromkeys(values))
            return [uniq[i] for i in _o] if len(uniq) == len(_o) else uniq
        saved = tutils.__dict__.get("set")
        tutils.set = fake_set
    try:
        st = StateTomography(n, base, callback)
        rho = st.process()
    except Exception as e:  # noqa: BLE001
        acc.violation("tomography_raises", case, {"error": repr(e), "callback": "bound method" if callback is not experiment else "function"})
        return
    finally:
        if order is not None:
            if saved is None:
                del tutils.set
            else:
                tutils.set = saved
    # callback contract
    if len(received) != 3 ** n:
        acc.violation("wrong_number_of_measurement_circuits", case, {"received": len(received)})
    else:
        want = expected_circuit_keys(prog, n)
        unmatched = list(want.items())
        for c in received:
            uf, h = c.U_full, c.heralds
            hit = None
            for i, (setting, w) in enumerate(unmatched):
                wf = w.U_full
                if wf.shape == uf.shape and w.heralds == h and np.allclose(wf, uf, atol=1e-10):
                    hit = i
                    break
            if hit is None:
                # same heralded transformation with the ancillas laid out differently is still "base + basis change"
                from ..ref_circuit import compare_scatter, impl_scatter
                sc = impl_scatter(c)
                for i, (setting, w) in enumerate(unmatched):
                    if compare_scatter(sc, impl_scatter(w), 1e-9)[0] == "ok":
                        hit = i
                        break
            if hit is None:
                acc.violation("measurement_circuit_not_base_plus_basis_change", case, None)
                break
            unmatched.pop(hit)
    if full_fingerprint(base) != fp0:
        acc.violation("base_circuit_modified", case, None)
    # reconstruction
    if not np.allclose(rho, rho.conj().T, atol=1e-10):
        acc.violation("rho_not_hermitian", case, None)
    if abs(np.trace(rho) - 1) > 1e-9:
        acc.violation("rho_trace_not_one", case, {"trace": complex(np.trace(rho))})
    err = float(np.abs(rho - rho_exp).max())
    if err > 1e-8:
        acc.violation("rho_is_not_the_prepared_state", case, {"max_err": err, "rho": rho, "expected": rho_exp})
    else:
        try:
            f = st.fidelity(rho_exp)
            if abs(f - 1) > 1e-6:
                acc.violation("fidelity_not_one", case, {"fidelity": float(f)})
        except Exception as e:  # noqa: BLE001
            acc.violation("fidelity_raises", case, {"error": repr(e)})
    acc.state(n, np.round(rho_exp, 8))
    if np.abs(rho_exp.imag).max() > 1e-6:
        acc.nontriv(n, np.round(rho_exp, 8))
    acc.outcome("%dq:%s" % (n, "complex" if np.abs(rho_exp.imag).max() > 1e-6 else "real"))


def run_reuse(n, prog, edit, vin, env, acc):
    """process(); edit the base circuit in place; process() again on the SAME object: the second result must be
    the state of the edited circuit; fidelity() queries must not change rho."""
    case = {"scenario": "reuse", "n_qubits": n, "prog": prog, "edit": edit, "input": vin, "seed": env.seed}
    base = tomo.build_base(n, prog)

    def experiment(circuits):
        return [tomo.outcome_frequencies(c, n, vin) for c in circuits]

    acc.tick("executions", 2); acc.tick("transitions", 2); acc.tick("reuse_scenarios")
    st = StateTomography(n, base, experiment)
    try:
        rho1 = st.process().copy()
        psi1, _ = tomo.qubit_state(base, n, vin)
        f1 = st.fidelity(np.outer(psi1, psi1.conj()))
        f1b = st.fidelity(np.outer(psi1, psi1.conj()))
        if abs(f1 - 1) > 1e-6 or abs(f1b - f1) > 1e-9 or not np.allclose(st.rho, rho1, atol=1e-12):
            acc.violation("fidelity_query_changes_result", case, {"first": float(f1), "second": float(f1b)})
        for g, q in edit:
            base.add(getattr(lw.qubit, g[0])(*g[1:]), 2 * q)
        rho2 = st.process()
    except Exception as e:  # noqa: BLE001
        acc.violation("tomography_raises", case, {"error": repr(e)})
        return
    psi2, _ = tomo.qubit_state(base, n, vin)
    want = np.outer(psi2, psi2.conj())
    if np.abs(rho2 - want).max() > 1e-8:
        acc.violation("second_process_call_ignores_edited_base_circuit", case,
                      {"max_err": float(np.abs(rho2 - want).max()),
                       "equals_first_result": bool(np.allclose(rho2, rho1, atol=1e-8))})
    else:
        try:
            f2 = st.fidelity(want)
            if abs(f2 - 1) > 1e-6:
                acc.violation("fidelity_not_one", {**case, "after": "second process()"}, {"fidelity": float(f2)})
        except Exception as e:  # noqa: BLE001
            acc.violation("fidelity_raises", case, {"error": repr(e)})
    acc.state("reuse", n, np.round(want, 8))


def run(tier, seed):
    env = Env(seed)
    progs = programs(env, tier)
    jobs = []
    for n, prog in progs:
        for vin in inputs_for(n, tier):
            jobs.append((n, prog, vin, None))
    # all callback orders for one qubit (3 required settings -> 6 orders), on complex states
    a1 = tomo.one_qubit_alphabet(env)
    for order in itertools.permutations(range(3)):
        for g in (a1[8], a1[9], a1[7], a1[4]):
            jobs.append((1, [(a1[0], 0), (g, 0)], (1, 0), order))
    # a slice of the 9! orders for two qubits: rotations and reversal
    for k in range(9):
        order = tuple((i + k) % 9 for i in range(9))
        jobs.append((2, [(a1[0], 0), (a1[9], 1), (("CNOT",), 0), (a1[4], 0), (a1[10], 1)], (1, 0, 1, 0), order))
        jobs.append((2, [(a1[0], 0), (a1[9], 1), (("CZ_Heralded",), 0), (a1[7], 1)], (1, 0, 1, 0), order[::-1]))

    reuse = [(1, [(a1[0], 0)], [(a1[4], 0)], (1, 0)), (1, [(a1[9], 0)], [(a1[1], 0), (a1[7], 0)], (0, 1)),
             (2, [(a1[0], 0), (("CNOT",), 0)], [(a1[1], 1)], (1, 0, 1, 0)),
             (2, [(a1[9], 1), (("CZ_Heralded",), 0)], [(a1[0], 0), (a1[4], 1)], (1, 0, 1, 0))]

    def shard_fn(js):
        acc = kernel.Acc()
        if js and js[0] is jobs[0]:
            for n, prog, edit, vin in reuse:
                run_reuse(n, prog, edit, vin, env, acc)
        for k, (n, prog, vin, order) in enumerate(js):
            run_tomography(n, prog, vin, env, acc, order)
            if order is None and k % 4 == 0:
                run_tomography(n, prog, vin, env, acc, order, threshold=0.05)
        if js:
            acc.sample({"n_qubits": js[0][0], "prog": js[0][1], "input": js[0][2], "callback_order": js[0][3]}, limit=1)
        return acc

    acc = kernel.pmap(shard_fn, kernel.interleave(jobs, kernel.NPROC * 3))
    meta = {
        "rule": "1 qubit: every product of <= 2 gates from a 12-gate alphabet (complex, non-symmetric, generic angles) "
                "on |0> and |1>; 2 qubits: product states x {CNOT both orientations, CZ, heralded CNOT both "
                "orientations, heralded CZ, SWAP} x trailing complex single-qubit gates; 3 qubits: GHZ-type via "
                "heralded+post-selected CNOTs and CCZ/CCNOT states with complex phases. The harness is the callback: "
                "it checks it received exactly 3^n circuits, each equal (U_full, heralds) to base + the documented "
                "basis change of a distinct setting, and answers with exact RefFock outcome frequencies; all 6 "
                "callback orders for one qubit and 18 orders for two qubits are forced by shadowing the set "
                "constructor seen by tomography.utils. Oracle: rho Hermitian, trace 1, equal to |psi><psi| from "
                "RefFock, fidelity 1, base unchanged. distinct_nontrivial = distinct prepared states with complex rho.",
        "exhaustive": True,
        "bounds": {"tomographies": len(jobs), "max_qubits": 3},
        "assumptions": ["noise-free frequencies; the prepared state is defined by RefFock amplitudes of the base circuit",
                        "callback orders: all for n=1, a slice for n=2, hash order otherwise"],
    }
    return acc, meta


def replay(w, acc):
    from .c01 import _tup
    case = w["case"]
    prog = [(_tup(g), q) for g, q in case["prog"]]
    if case.get("scenario") == "reuse":
        run_reuse(case["n_qubits"], prog, [(_tup(g), q) for g, q in case["edit"]], tuple(case["input"]),
                  Env(case.get("seed", 0)), acc)
        return
    order = tuple(case["order"]) if case.get("order") is not None else None
    run_tomography(case["n_qubits"], prog, tuple(case["input"]), Env(case.get("seed", 0)), acc, order,
                   threshold=case.get("sampler_probability_threshold"))
