"""C08 — operations never modify their arguments; failed calls change nothing (E2).

Explicit-state BFS over a pool of live objects: every transition calls the real
API with pool members as receiver/arguments; the invariant is evaluated on
every transition (not only on new states).
"""
from __future__ import annotations

import numpy as np

import lightworks as lw
from lightworks import emulator as emu

from .. import kernel
from ..circuit_ops import Env, REJECT_TYPES, full_fingerprint

SLOTS = ["P", "A", "B", "Q", "C", "L", "W", "G", "E", "O", "K"]


def init_pool(env):
    P = lw.Circuit(4)
    P.bs(0, reflectivity=env.R[1])
    A = lw.Circuit(2); A.bs(0, reflectivity=env.R2, convention="H"); A.barrier([0, 1]); A.ps(1, env.PH[0])
    B = lw.Unitary(env.Usub[1].copy()); B.herald(1, 1)
    Q = lw.Circuit(4); Q.add(B, 1); Q.ps(0, env.PH[1])
    S = lw.State([1, 0, 1, 0])
    L = lw.Circuit(4); L.bs(0, reflectivity=env.R[1], loss=env.L2); L.ps(2, env.PH[0], loss=env.L[1])   # lossy
    # swaps, lossless: two separate runs of mergeable swaps with a blocker in between
    W = lw.Circuit(4); W.mode_swaps({0: 2, 2: 1, 1: 0}); W.mode_swaps({0: 1, 1: 0}); W.bs(1, 3, reflectivity=env.R2)
    W.mode_swaps({2: 3, 3: 2}); W.mode_swaps({0: 3, 3: 0, 1: 2, 2: 1})
    g = lw.Circuit(2); g.bs(0, reflectivity=lw.Parameter(env.R2, label="g")); g.ps(1, lw.Parameter(env.PH[1]))
    G = lw.Circuit(4); G.add(g, 1, group=True); G.ps(0, lw.Parameter(env.PH[0], label="top"))   # Parameters inside a group
    E = lw.Circuit(4)                                                                          # empty
    O = lw.Circuit(4); O.add(A, 1, group=True)                                                 # exactly one group
    k = lw.Circuit(2); k.bs(0, reflectivity=env.R[1], convention="H"); k.ps(0, env.PH[1])
    K = lw.Circuit(3); K.add(k, 1, group=True); K.bs(0, reflectivity=env.R2)                # small, holds a plain group off mode 0
    return {"P": P, "A": A, "B": B, "Q": Q, "C": None, "S": S, "L": L, "W": W, "G": G, "E": E, "O": O, "K": K}


def alphabet(env):
    ops = []
    for arg in ("A", "B"):
        for m in (0, 1, 2):
            for g in (False, True):
                ops.append(("add", "P", arg, m, g))
        for m in (0, 1, 2):
            ops.append(("add", "Q", arg, m, False))
        ops.append(("add", "Q", arg, 1, True))
    ops += [("add", "A", "B", 0, False), ("add", "P", "Q", 0, False), ("add", "Q", "Q", 0, False),
            ("add", "P", "P", 0, True)]
    ops += [("plus", "P", "P"), ("plus", "P", "Q"), ("plus", "Q", "P"), ("plus", "L", "W"), ("plus", "W", "L"),
            ("plus", "P", "W"), ("plus", "L", "P"), ("add", "P", "W", 0, False), ("add", "L", "A", 1, True)]
    ops += [("edit", "A", "bs"), ("edit", "A", "loss"), ("edit", "B", "ps"), ("edit", "B", "herald"),
            ("edit", "P", "herald"), ("edit", "Q", "swap"), ("edit", "P", "bsloss")]
    ops += [("copy", "P"), ("copy", "Q"), ("freeze", "Q"), ("copy", "B"), ("copy", "W"),
            ("copy", "G"), ("freeze", "G"), ("copy", "O"), ("plus", "E", "P"), ("plus", "P", "E"), ("plus", "E", "W"),
            ("edit", "C", "unpack_then_ps"), ("edit", "O", "unpack_then_ps")]
    ops += [("add", "P", "K", 1, False), ("add", "Q", "K", 1, False), ("add", "P", "K", 0, False), ("add", "P", "K", 1, True)]
    ops += [("edit", "C", "unpack"), ("edit", "C", "compress"), ("edit", "C", "remove"), ("edit", "C", "bs"),
            ("add", "C", "A", 1, False), ("add", "P", "C", 0, False)]
    for tgt in ("P", "Q"):
        ops += [("obs", "sim", tgt), ("obs", "sampler", tgt), ("obs", "analyzer", tgt), ("obs", "quick", tgt),
                ("obs", "reck", tgt), ("obs", "svg", tgt), ("obs", "mpl", tgt), ("obs", "slos", tgt)]
    # calls that must be refused
    ops += [("bad", "P", "bs_same"), ("bad", "P", "bs_range"), ("bad", "Q", "bs_range"), ("bad", "P", "loss_value"),
            ("bad", "P", "ps_loss_value"), ("bad", "Q", "swap_incomplete"), ("bad", "P", "herald_range"),
            ("bad", "Q", "herald_dup"), ("bad", "Q", "herald_dup_out"), ("bad", "P", "herald_dup"), ("edit", "Q", "herald"), ("bad", "P", "add_oversize_A"), ("bad", "Q", "add_oversize_B"),
            ("bad", "P", "add_not_circuit"), ("bad", "P", "add_negative"), ("bad", "Q", "bs_conv"),
            ("bad", "P", "herald_type"), ("bad", "Q", "add_oversize_span"), ("bad", "P", "bs_loss_string"),
            ("bad", "Q", "ps_loss_string"), ("bad", "P", "loss_string"), ("bad", "P", "bs_refl_string"), ("bad", "Q", "add_oversize_heralded_span"),
            ("bad", "P", "add_oversize_heralded_span"), ("bad", "P", "bs_loss_param"), ("bad", "Q", "ps_loss_param"),
            ("bad", "P", "loss_param"), ("bad", "P", "add_heralded_name_int"), ("bad", "Q", "add_heralded_name_int"),
            ("bad", "P", "swap_pairs_list")]
    return ops


def fingerprints(pool):
    out = {}
    for k in SLOTS:
        out[k] = None if pool[k] is None else full_fingerprint(pool[k])
    out["S"] = tuple(pool["S"].s)
    return out


def apply_op(pool, op, env):
    """Returns (receiver slot or None, rejected: bool). May raise Skip."""
    k = op[0]
    if k == "add":
        _, recv, arg, m, g = op
        if pool[recv] is None or pool[arg] is None:
            raise kernel.Skip()
        try:
            pool[recv].add(pool[arg], m, group=g)
        except REJECT_TYPES:
            return recv, True
        return recv, False
    if k == "plus":
        try:
            pool["C"] = pool[op[1]] + pool[op[2]]
        except (lw.ModeRangeError, NotImplementedError, TypeError):
            return None, True
        return "C", False
    if k == "edit":
        c = pool[op[1]]
        if c is None:
            raise kernel.Skip()
        try:
            what = op[2]
            if what == "bs": c.bs(0, 1, reflectivity=0.35)
            elif what == "loss": c.loss(0, env.L[1])
            elif what == "ps": c.ps(0, 0.77)
            elif what == "herald": c.herald(0, 0, 0)
            elif what == "swap": c.mode_swaps({0: 2, 2: 0})
            elif what == "bsloss": c.bs(2, 0, reflectivity=env.R2, loss=env.L2, convention="H")
            elif what == "unpack": c.unpack_groups()
            elif what == "unpack_then_ps": c.unpack_groups(); c.ps(0, 0.41); c.loss(1, env.L2)
            elif what == "compress": c.compress_mode_swaps()
            elif what == "remove": c.remove_non_adjacent_bs()
        except REJECT_TYPES:
            return op[1], True
        return op[1], False
    if k in ("copy", "freeze"):
        if pool[op[1]] is None:
            raise kernel.Skip()
        pool["C"] = pool[op[1]].copy(freeze_parameters=(k == "freeze"))
        return "C", False
    if k == "obs":
        c = pool[op[2]]
        s = lw.State(pool["S"].s[: c.input_modes]) if c.input_modes <= 4 else None
        try:
            if op[1] == "sim":
                emu.Simulator(c).simulate(s)
            elif op[1] == "sampler":
                sm = emu.Sampler(c, s)
                sm.probability_distribution
                sm.sample_N_inputs(3, seed=1)
                sm.sample_N_outputs(3, seed=1)
                sm.sample()
            elif op[1] == "slos":
                emu.Sampler(c, s, backend="slos", source=emu.Source(indistinguishability=0.9)).probability_distribution
            elif op[1] == "analyzer":
                emu.Analyzer(c).analyze(s)
            elif op[1] == "quick":
                q = emu.QuickSampler(c, s)
                q.probability_distribution
                q.sample_N_outputs(3, seed=1)
            elif op[1] == "reck":
                lw.interferometers.Reck().map(c)
            elif op[1] == "svg":
                lw.Display(c, display_type="svg", display_loss=True)
            elif op[1] == "mpl":
                import matplotlib.pyplot as plt
                lw.Display(c, display_type="mpl")
                plt.close("all")
        except Exception:  # noqa: BLE001  (an observer that refuses still must not change anything)
            return None, True
        return None, False
    if k == "bad":
        c = pool[op[1]]
        what = op[2]
        try:
            if what == "bs_same": c.bs(1, 1)
            elif what == "bs_range": c.bs(0, 4)
            elif what == "loss_value": c.loss(0, 1.5)
            elif what == "ps_loss_value": c.ps(0, 0.3, loss=-0.1)
            elif what == "swap_incomplete": c.mode_swaps({0: 1, 1: 2})
            elif what == "herald_range": c.herald(1, 0, 9)
            elif what == "herald_dup": c.herald(1, 0, 1)        # refused iff input 0 is already heralded
            elif what == "herald_dup_out": c.herald(1, 1, 0)    # refused iff output 0 is already heralded
            elif what == "add_oversize_A": c.add(pool["A"], 3)
            elif what == "add_oversize_B": c.add(pool["B"], 3)
            elif what == "add_oversize_span": c.add(lw.Unitary(env.U[4].copy()), 1)
            elif what == "add_oversize_heralded_span":
                # fits by a plain mode count, oversize only because an ancilla lies inside the span
                hs = lw.Unitary(env.U[5].copy()); hs.herald(1, 2, 2)
                c.add(hs, 1)
            elif what == "add_heralded_name_int":      # accepted today (then an ordinary edit); if refused, nothing may remain
                c.add(pool["B"], 1, name=5)
            elif what == "swap_pairs_list":            # not a dictionary
                try:
                    c.mode_swaps([(0, 1), (2, 7)])
                except Exception:  # noqa: BLE001
                    return op[1], True
            elif what == "bs_loss_param": c.bs(0, 1, loss=lw.Parameter(1.5))       # invalid value held by a Parameter
            elif what == "ps_loss_param": c.ps(0, 0.3, loss=lw.Parameter(-0.2))
            elif what == "loss_param": c.loss(1, lw.Parameter("x"))
            elif what == "bs_loss_string": c.bs(0, 1, loss="0.25")
            elif what == "ps_loss_string": c.ps(0, 0.3, loss="0.25")
            elif what == "loss_string": c.loss(0, "0.1")
            elif what == "bs_refl_string": c.bs(0, 1, reflectivity="0.5")
            elif what == "add_not_circuit": c.add("circuit", 0)
            elif what == "add_negative": c.add(pool["A"], -1)
            elif what == "bs_conv": c.bs(0, 1, convention="Q")
            elif what == "herald_type": c.herald(1.5, 0)
        except REJECT_TYPES:
            return op[1], True
        return op[1], False       # accepted: then it is an ordinary edit of the receiver
    raise KeyError(op)


def build(hist, env):
    pool = init_pool(env)
    for op in hist:
        apply_op(pool, op, env)
    return pool


def sharing(pool):
    """Which circuits of the pool share mutable innards (the spec list itself, or the contents list of a group).
    Two pools with equal fingerprints but different sharing have different futures, so this is part of the state."""
    def lists(c):
        spec = c._Circuit__circuit_spec
        out = [id(spec)]
        for comp in spec:
            if type(comp).__name__ == "Group":
                out.append(id(comp.circuit_spec))
        return set(out)
    ids = {k: lists(pool[k]) for k in SLOTS if pool[k] is not None}
    return tuple(sorted((a, b) for a in ids for b in ids if a < b and ids[a] & ids[b]))


def pool_key(pool):
    return kernel.fp8((tuple(sorted((k, kernel.canon(v)) for k, v in fingerprints(pool).items())), sharing(pool)))


def explore(env, depth, alpha):
    def expand(hist):
        acc = kernel.Acc()
        succ = []
        for op in alpha:
            try:
                pool = build(hist, env)
            except kernel.Skip:
                break
            before = fingerprints(pool)
            try:
                recv, rejected = apply_op(pool, op, env)
            except kernel.Skip:
                acc.tick("skipped_transitions")
                continue
            acc.tick("transitions"); acc.tick("executions")
            after = fingerprints(pool)
            case = {"history": hist, "op": op, "seed": env.seed}
            if rejected:
                acc.tick("rejected_calls")
            for k in before:
                if k == recv and not rejected:
                    continue
                if k == "C" and op[0] in ("copy", "freeze", "plus") and not rejected:
                    continue
                if before[k] != after[k]:
                    kind = "failed_call_changed_receiver" if (rejected and k == recv) else "argument_or_bystander_modified"
                    acc.violation(kind, case, {"changed": k, "receiver": recv, "rejected": rejected,
                                               "n_modes_before": before[k][0][0] if before[k] and k != "S" else None,
                                               "n_modes_after": after[k][0][0] if after[k] and k != "S" else None})
                    break
            if op[0] in ("copy", "freeze") and not rejected and after["C"][:4] != after[op[1]][:4]:
                # the copy is the same circuit: observable state, ancilla bookkeeping and pass-through heralds (what later
                # edits of the copy are resolved against) equal those of the original
                names = ("observable", "internal_modes", "external_input_heralds", "external_output_heralds")
                acc.violation("copy_differs_from_original", case,
                              {"differs_in": [nm for nm, x, y in zip(names, after["C"], after[op[1]]) if x != y]})
            if op[0] == "bad" and not rejected and op[2] in ("bs_same", "bs_range", "loss_value", "ps_loss_value",
                                                             "swap_incomplete", "herald_range", "add_not_circuit",
                                                             "bs_conv", "herald_type", "add_negative"):
                acc.tick("unconditionally_illegal_call_accepted")
            acc.outcome("%s:%s" % (op[0], "rejected" if rejected else "ok"))
            if not rejected and recv is not None and before.get(recv) != after.get(recv):
                acc.nontriv(hist, op)
            succ.append((pool_key(pool), hist + (op,)))
        return acc, succ

    return kernel.bfs_levels(expand, pool_key(init_pool(env)), depth)


# ---------------------------------------------------------------------------
# shared module-level gate instances (converter, tomography)
# ---------------------------------------------------------------------------
def module_globals_fp():
    from lightworks.qubit.converter import qiskit_convert as qc
    from lightworks.tomography import mappings as mp
    out = {}
    for k, v in qc.SINGLE_QUBIT_GATES_MAP.items():
        out["conv:" + k] = full_fingerprint(v)
    for k, v in mp.MEASUREMENT_MAPPING.items():
        out["meas:" + k] = full_fingerprint(v)
    for k, (s, c) in mp.INPUT_MAPPING.items():
        out["input:" + k] = (tuple(s.s), full_fingerprint(c))
    out["r_transform"] = full_fingerprint(mp.r_transform)
    return out


def exact_experiment(circuits, n_qubits):
    """Noise-free outcome frequencies via the library's own Sampler (this check only needs *a* result)."""
    res = []
    for c in circuits:
        s = emu.QuickSampler(c, lw.State([1, 0] * n_qubits))
        res.append({k: v for k, v in s.probability_distribution.items()})
    return res


def shared_gate_scenarios(env, acc):
    from qiskit import QuantumCircuit
    from lightworks.qubit import qiskit_converter
    from lightworks.tomography import LIProcessTomography, StateTomography
    base_fp = module_globals_fp()

    def check(label, objs=()):
        acc.tick("transitions"); acc.tick("executions")
        now = module_globals_fp()
        for k in base_fp:
            if now[k] != base_fp[k]:
                acc.violation("shared_module_gate_modified", {"scenario": label, "seed": env.seed},
                              {"object": k, "n_modes_before": base_fp[k][0][0] if k[:5] != "input" else None,
                               "n_modes_after": now[k][0][0] if k[:5] != "input" else None})
                return False
        return True

    # converter: heralded two-qubit gates precede single-qubit gates (ancillas inside later spans)
    gates1 = ["h", "x", "y", "z", "s", "sdg", "t", "tdg", "sx"]
    for n in (2, 3):
        for first in (("cx", 0, 1), ("cz", 1, 0), ("cx", n - 1, 0)):
            for g in gates1:
                qc = QuantumCircuit(n)
                getattr(qc, first[0])(first[1], first[2])
                for q in range(n):
                    getattr(qc, g)(q)
                qc.cx(0, 1)
                for q in range(n):
                    getattr(qc, g)(q)
                try:
                    qiskit_converter(qc)
                except Exception as e:  # noqa: BLE001
                    acc.tick("converter_raised")
                if not check("convert:%d:%s:%s" % (n, first, g)):
                    return
    # tomography on base circuits with an ancilla between a qubit's rails
    for n_q, build_base in ((1, _base_1q), (2, _base_2q)):
        base = build_base(env)
        fp0 = full_fingerprint(base)
        for label, run in (
            ("state_tomo", lambda: StateTomography(n_q, base, exact_experiment, [n_q]).process()),
            ("li_process_tomo", lambda: LIProcessTomography(n_q, base, _proc_experiment).process()),
            ("state_tomo_again", lambda: StateTomography(n_q, base, exact_experiment, [n_q]).process()),
        ):
            try:
                run()
            except Exception as e:  # noqa: BLE001
                acc.violation("tomography_fails_on_heralded_base", {"scenario": label, "qubits": n_q,
                                                                    "seed": env.seed}, {"error": repr(e)})
            if full_fingerprint(base) != fp0:
                acc.violation("base_circuit_modified", {"scenario": label, "qubits": n_q, "seed": env.seed}, None)
            if not check("%s:%d" % (label, n_q)):
                return


def _proc_experiment(circuits, inputs):
    res = []
    for c, i in zip(circuits, inputs):
        s = emu.QuickSampler(c, i)
        res.append({k: v for k, v in s.probability_distribution.items()})
    return res


def _base_1q(env):
    # a heralded 3-mode block whose ancilla ends up between the two rails of the qubit
    sub = lw.Circuit(3); sub.bs(0, 2, reflectivity=env.R2); sub.herald(0, 1)
    base = lw.Circuit(2)
    base.add(sub, 0)
    return base


def _base_2q(env):
    base = lw.Circuit(4)
    base.add(lw.qubit.H(), 0)
    base.add(lw.qubit.CNOT_Heralded(), 0)
    return base


def run(tier, seed):
    env = Env(seed)
    alpha = alphabet(env)
    depth = 2 if tier == "quick" else 3
    acc, nstates, closed, d = explore(env, depth, alpha)
    sacc = kernel.Acc()
    shared_gate_scenarios(env, sacc)
    acc.merge(sacc)
    acc.sample({"history": [alpha[0], ("edit", "A", "bs")], "op": alpha[14],
                "invariant": "fingerprint of every pool object except the receiver unchanged"})
    meta = {
        "rule": "BFS from the initial pool {P 4-mode parent, A plain sub, B heralded sub, Q parent already holding B, "
                "C copy slot, S state} over %d transitions: add in every placement/group flag (incl. Q.add with the "
                "ancilla strictly inside the span, self-addition, adding a copy), +, in-place edits of subs after use, "
                "copy/freeze and rewrites of the copy, 8 observers (Simulator, Sampler incl. sampling calls, slos with "
                "imperfect source, Analyzer, QuickSampler, Reck, Display svg/mpl) and 15 calls that must be refused. "
                "Invariant on every transition: full fingerprint (observables + hidden ancilla lists + spec structure) "
                "of every object except the receiver unchanged; for a refused call the receiver's too. Plus scripted "
                "converter/tomography scenarios with fingerprints of every shared module-level gate instance. "
                "distinct_nontrivial = transitions that changed their receiver." % len(alpha),
        "exhaustive": True,
        "bounds": {"depth": d, "alphabet": len(alpha), "states": nstates, "closed": closed},
        "caps_hit": [] if closed else ["depth bound %d reached before the state space closed" % depth],
        "assumptions": ["fingerprint covers n_modes, heralds, internal modes, external heralds, U_full, deep spec "
                        "structure; Parameter identity is not part of it (sharing is by design)"],
    }
    return acc, meta


def replay(w, acc):
    from .c01 import _tup
    case = w["case"]
    env = Env(case.get("seed", 0))
    if "scenario" in case:
        shared_gate_scenarios(env, acc)
        return
    hist = tuple(_tup(o) for o in case["history"])
    op = _tup(case["op"])
    pool = build(hist, env)
    before = fingerprints(pool)
    recv, rejected = apply_op(pool, op, env)
    after = fingerprints(pool)
    for k in before:
        if k == recv and not rejected:
            continue
        if k == "C" and op[0] in ("copy", "freeze", "plus") and not rejected:
            continue
        if before[k] != after[k]:
            acc.violation("argument_or_bystander_modified" if not (rejected and k == recv)
                          else "failed_call_changed_receiver", case, {"changed": k})
