"""C12 — qiskit conversion preserves the circuit's unitary, or refuses (E1 over
all multi-qubit gate sequences up to a length bound, decorated with complex
single-qubit layers, both allow_post_selection values)."""
from __future__ import annotations

import itertools
import math

import numpy as np

import lightworks as lw

from .. import kernel, ref_qubit as rq
from ..circuit_ops import Env

TOL = 1e-8
SINGLES = ["h", "s", "ry", "t", "sx", "rz", "x", "p", "sdg", "y", "rx", "tdg", "z"]


def multi_gates(n):
    two = [(g, a, b) for g in ("cx", "cz", "swap") for a in range(n) for b in range(n) if a != b]
    three = [(g,) + p for g in ("ccx", "ccz") for p in itertools.permutations(range(n), 3)] if n >= 3 else []
    return two + three


def decorate(n, gates, env, everywhere=False):
    """Program: leading layer on every qubit, then after each multi-qubit gate a
    single-qubit gate on each of its qubits, rotating through all supported ones."""
    prog = []
    k = 0

    def single(q):
        nonlocal k
        g = SINGLES[k % len(SINGLES)]
        k += 1
        if g in ("ry", "rz", "rx", "p"):
            prog.append((g, env.PH[k % 3], q))
        else:
            prog.append((g, q))

    for q in range(n):
        single(q)
    for g in gates:
        prog.append(g)
        for q in (range(n) if everywhere else g[1:]):      # everywhere: also on the qubits the gate did not address
            single(q)
    return prog


class ConversionTimeout(Exception):
    pass


def _alarm(signum, frame):
    raise ConversionTimeout()


def build_qc(n, prog, split=False):
    from qiskit import QuantumCircuit, QuantumRegister
    if split and n >= 2:
        # the same circuit declared over two registers: a qubit's index inside its register is not its position
        qc = QuantumCircuit(QuantumRegister(1, "a"), QuantumRegister(n - 1, "b"))
    else:
        qc = QuantumCircuit(n)
    for g in prog:
        if g[0] in ("ry", "rz", "rx", "p"):
            getattr(qc, g[0])(g[1], g[2])
        else:
            getattr(qc, g[0])(*g[1:])
    return qc


def operator_big_endian(qc):
    from qiskit.quantum_info import Operator
    u = Operator(qc).data
    n = qc.num_qubits
    rev = [int(format(i, "0%db" % n)[::-1], 2) for i in range(2 ** n)]
    return u[np.ix_(rev, rev)]


def check_conversion(n, gates, aps, env, acc, split=False):
    import signal
    from lightworks.qubit import qiskit_converter
    plain = split == "plain"          # the multi-qubit gates alone, without the single-qubit decoration
    full = split == "full"            # single-qubit gates on every qubit (bystanders too) after each multi-qubit gate
    split = split is True
    prog = list(gates) if plain else decorate(n, gates, env, everywhere=full)
    case = {"n_qubits": n, "gates": gates, "allow_post_selection": aps, "seed": env.seed}
    if plain:
        case["plain"] = True
    if full:
        case["full"] = True
    if split:
        case["registers"] = [1, n - 1]
    qc = build_qc(n, prog, split)
    acc.tick("executions"); acc.tick("transitions", len(prog))
    old = signal.signal(signal.SIGALRM, _alarm)
    signal.alarm(10)                 # a conversion that does not come back is a verdict, not a hung check
    try:
        circ, ps = qiskit_converter(qc, allow_post_selection=aps)
    except ConversionTimeout:
        acc.violation("converter_does_not_terminate", case, {"limit_s": 10})
        return
    except ValueError:
        acc.tick("refused")
        acc.outcome("refused:aps=%s" % aps)
        return
    except Exception as e:  # noqa: BLE001
        acc.violation("converter_crashes", case, {"error": repr(e)})
        return
    finally:
        signal.alarm(0)
        signal.signal(signal.SIGALRM, old)
    if circ.input_modes != 2 * n:
        acc.violation("wrong_visible_mode_count", case, {"input_modes": circ.input_modes})
        return
    accept = None if ps is None else (lambda o: bool(ps.validate(lw.State(list(o)))))
    try:
        A, leak, leak_at = rq.circuit_gate_matrix(circ, n, accept)
    except lw.CircuitCompilationError as e:
        acc.violation("converted_circuit_does_not_compile", case, {"error": repr(e.__cause__)})
        return
    U = operator_big_endian(qc)
    s2, err = rq.compare_up_to_scalar(A, U)
    acc.state(n, gates, aps)
    if s2 < 1e-14:
        acc.violation("returns_circuit_with_zero_success", case, {"s2": s2})
    elif err > TOL * max(1.0, math.sqrt(s2)) and err / math.sqrt(s2) > 1e-6:
        acc.violation("converted_circuit_implements_something_else", case,
                      {"relative_err": err / math.sqrt(s2), "s2": s2,
                       "post_selection_rules": None if ps is None else [r.as_tuple() for r in ps.rules]})
    elif leak / math.sqrt(s2) > 1e-6:
        acc.violation("accepted_output_outside_qubit_subspace", case, {"amp": leak, "at": leak_at, "s2": s2})
    acc.outcome("converted:aps=%s:rules=%s" % (aps, 0 if ps is None else len(ps.rules)))
    if len(gates) >= 2:
        acc.nontriv(n, gates, aps)


def check_unsupported(env, acc):
    from qiskit import QuantumCircuit
    from lightworks.qubit import qiskit_converter
    cases = []
    qc = QuantumCircuit(2); qc.cy(0, 1); cases.append(("cy", qc))
    qc = QuantumCircuit(2); qc.ch(0, 1); cases.append(("ch", qc))
    qc = QuantumCircuit(2); qc.rxx(0.3, 0, 1); cases.append(("rxx", qc))
    qc = QuantumCircuit(1); qc.id(0); cases.append(("id", qc))
    qc = QuantumCircuit(1); qc.u(0.1, 0.2, 0.3, 0); cases.append(("u", qc))
    qc = QuantumCircuit(4); qc.mcx([0, 1, 2], 3); cases.append(("mcx4", qc))
    qc = QuantumCircuit(3); qc.cswap(0, 1, 2); cases.append(("cswap", qc))
    qc = QuantumCircuit(3); qc.ccx(0, 1, 2); cases.append(("ccx_without_post_selection", qc))
    for label, qc in cases:
        for aps in (False, True):
            if label == "ccx_without_post_selection" and aps:
                continue
            acc.tick("executions"); acc.tick("transitions")
            try:
                qiskit_converter(qc, allow_post_selection=aps)
            except ValueError:
                acc.tick("refused")
                continue
            except Exception as e:  # noqa: BLE001
                acc.violation("unsupported_gate_wrong_error", {"gate": label, "allow_post_selection": aps,
                                                               "seed": env.seed}, {"error": repr(e)})
                continue
            acc.violation("unsupported_gate_accepted", {"gate": label, "allow_post_selection": aps, "seed": env.seed}, None)
    for bad in ("not a circuit", None):
        try:
            qiskit_converter(bad)
            acc.violation("non_circuit_accepted", {"gate": repr(bad), "seed": env.seed}, None)
        except TypeError:
            acc.tick("refused")


def check_special_angles(env, acc):
    """Rotation gates at the angles where a converter might substitute a fixed gate: every multiple of pi/4 of either
    sign up to 2 pi (what QuantumCircuit.inverse() produces from s, t, p(pi/2) ...), and their near neighbours."""
    from qiskit import QuantumCircuit
    from lightworks.qubit import qiskit_converter
    angles = [k * math.pi / 4 for k in range(-8, 9)] + [-math.pi / 2 + 1e-9, math.pi / 4 - 1e-9, -3 * math.pi / 4 + 1e-7]
    for g in ("p", "rz", "rx", "ry"):
        for th in angles:
            for ctx in ("alone", "h_g_h", "after_cx"):
                n = 2 if ctx == "after_cx" else 1
                qc = QuantumCircuit(n)
                if ctx == "h_g_h":
                    qc.h(0); getattr(qc, g)(th, 0); qc.h(0)
                elif ctx == "alone":
                    getattr(qc, g)(th, 0)
                else:
                    qc.h(0); qc.cx(0, 1); getattr(qc, g)(th, 1); getattr(qc, g)(-th, 0); qc.h(1)
                case = {"scenario": "special_angles", "gate": g, "angle": th, "context": ctx, "seed": env.seed}
                acc.tick("executions"); acc.tick("transitions", len(qc.data))
                try:
                    circ, ps = qiskit_converter(qc, allow_post_selection=True)
                    accept = None if ps is None else (lambda o: bool(ps.validate(lw.State(list(o)))))
                    A, leak, _ = rq.circuit_gate_matrix(circ, n, accept)
                except Exception as e:  # noqa: BLE001
                    acc.violation("converter_crashes", case, {"error": repr(e)})
                    continue
                s2, err = rq.compare_up_to_scalar(A, operator_big_endian(qc))
                if s2 < 1e-14 or (err > TOL * max(1.0, math.sqrt(s2)) and err / math.sqrt(s2) > 1e-6):
                    acc.violation("converted_circuit_implements_something_else", case,
                                  {"relative_err": err / math.sqrt(max(s2, 1e-300)), "s2": s2})
                acc.state("angle", g, round(th, 9), ctx)
                acc.nontriv("angle", g, round(th, 9), ctx)


def run(tier, seed):
    env = Env(seed)
    plan = [(2, 3), (3, 2), (4, 1)] if tier == "quick" else [(2, 4), (3, 3), (4, 2)]
    jobs = []
    for n, L in plan:
        mg = multi_gates(n)
        for d in range(1, L + 1):
            for gates in itertools.product(mg, repeat=d):
                for aps in (False, True):
                    jobs.append((n, gates, aps))

    if tier == "quick":
        # qubits that move: every length-3 sequence of two-qubit gates on 3 qubits that contains a swap
        two = [g for g in multi_gates(3) if len(g) == 3]
        for gates in itertools.product(two, repeat=3):
            if any(g[0] == "swap" for g in gates):
                for aps in (False, True):
                    jobs.append((3, gates, aps))
            else:            # ... and without one, with post-selection allowed (the analyzer's flags over three gates)
                jobs.append((3, gates, True))

    # the same circuits declared over two quantum registers (short sequences)
    split_jobs = []
    for n, L in [(2, 2), (3, 2), (4, 1)]:
        mg = multi_gates(n)
        for d in range(1, L + 1):
            for gates in itertools.product(mg, repeat=d):
                for aps in (False, True):
                    split_jobs.append((n, gates, aps, True))
    # undecorated sequences (the analyzer's per-instruction flags line up with the multi-qubit gates only here)
    plain_jobs = []
    for n, L in [(2, 3), (3, 3)]:
        two = [g for g in multi_gates(n) if len(g) == 3 and g[0] != "swap"]
        for d in range(1, L + 1):
            for gates in itertools.product(two, repeat=d):
                plain_jobs.append((n, gates, True, "plain"))
    # single-qubit gates on the bystander qubits too (whatever a gate does to qubits it was not given must be undone
    # before the next instruction)
    full_jobs = []
    for n, L in [(3, 2), (4, 1)]:
        mg = multi_gates(n)
        two = [g for g in mg if len(g) == 3]
        for gates in [(g,) for g in mg] + (list(itertools.product(two, repeat=2)) if L >= 2 else []):
            for aps in (False, True):
                full_jobs.append((n, gates, aps, "full"))
    jobs = [j + (False,) for j in jobs] + split_jobs + plain_jobs + full_jobs

    def shard_fn(js):
        acc = kernel.Acc()
        for n, gates, aps, split in js:
            check_conversion(n, gates, aps, env, acc, split)
        if js:
            acc.sample({"n_qubits": js[0][0], "program": decorate(js[0][0], js[0][1], env),
                        "allow_post_selection": js[0][2]}, limit=1)
        return acc

    acc = kernel.pmap(shard_fn, kernel.interleave(jobs, kernel.NPROC * 8))
    u = kernel.Acc()
    check_unsupported(env, u)
    check_special_angles(env, u)
    acc.merge(u)
    meta = {
        "rule": "for n qubits and every sequence of length <= L over ALL ordered qubit tuples of cx, cz, swap, ccx, ccz "
                "(adjacent or not, either orientation), decorated with a leading and trailing layer rotating through "
                "all 13 supported single-qubit gates (complex, non-symmetric, generic angles), for both "
                "allow_post_selection values (sequences up to length 2 also with the qubits declared over two registers): either the converter raises ValueError, or for every dual-rail basis "
                "input and every output satisfying the circuit's heralds and the returned post-selection rules the "
                "amplitude (RefFock on U_full) is s x Operator(qc) with one s != 0 and nothing accepted lies outside "
                "the qubit subspace. Plus 8 unsupported gates that must be refused. distinct_nontrivial = converted "
                "or refused sequences with >= 2 multi-qubit gates.",
        "exhaustive": True,
        "bounds": {"(n_qubits, max_sequence_length)": plan, "conversions": len(jobs)},
        "assumptions": ["qiskit.quantum_info.Operator is the gate-semantics oracle (little-endian, permuted to big-endian)",
                        "single-qubit decoration is a fixed rotation, not every placement"],
    }
    return acc, meta


def replay(w, acc):
    from .c01 import _tup
    case = w["case"]
    env = Env(case.get("seed", 0))
    if case.get("scenario") == "special_angles":
        check_special_angles(env, acc)
        return
    if "gates" not in case:
        check_unsupported(env, acc)
        return
    check_conversion(case["n_qubits"], tuple(_tup(g) for g in case["gates"]), case["allow_post_selection"], env, acc,
                     split="plain" if case.get("plain") else "full" if case.get("full") else "registers" in case)
