"""C11 — results depend only on the current configuration, not on history (E2).

BFS over the real attribute setters / in-place mutations / reads of long-lived
Sampler, QuickSampler and Analyzer objects with complete `vars()` fingerprints;
differential oracle: a freshly built object in the configuration the history
ends in. Sampling calls are observed through E3 (their law, not a draw).
"""
from __future__ import annotations

import random as pyrandom

import numpy as np

import lightworks as lw
from lightworks import emulator as emu
from lightworks.emulator.results import SimulationResult
from lightworks.sdk.circuit.compiler import CompiledCircuit

from .. import kernel
from ..circuit_ops import Env, full_fingerprint
from .c07 import law, result_key


# ---------------------------------------------------------------------------
def canon(x):
    if isinstance(x, np.ndarray):
        return ("nd", x.shape, np.round(x, 12).tobytes())
    if isinstance(x, SimulationResult):
        return ("Res", canon(x.array), canon(list(x.inputs)), canon(list(x.outputs)),
                canon({k: v for k, v in vars(x).items() if not k.startswith("_")}))
    if isinstance(x, dict):
        return ("d",) + tuple((canon(k), canon(v)) for k, v in x.items())
    if isinstance(x, (list, tuple)):
        return tuple(canon(i) for i in x)
    if isinstance(x, lw.State):
        return ("S", tuple(x.s))
    if isinstance(x, lw.Circuit):
        return ("C", full_fingerprint(x))
    if isinstance(x, (emu.Source, emu.Detector, emu.Backend, lw.PostSelection)):
        # nested helper objects: their complete attribute dict too (hidden caches are state)
        return (type(x).__name__, canon(vars(x)))
    if hasattr(x, "as_tuple"):           # post-selection Rule
        return ("Rule", x.as_tuple())
    if isinstance(x, (set, frozenset)):
        return ("set",) + tuple(sorted(repr(canon(i)) for i in x))
    if callable(x) and hasattr(x, "__name__"):
        return ("fn", x.__name__, tuple(repr(c.cell_contents) for c in (getattr(x, "__closure__", None) or ())))
    if isinstance(x, (int, float, str, bool, type(None), complex, np.floating, np.integer)):
        return x if not isinstance(x, (np.floating, np.integer)) else x.item()
    if hasattr(x, "validate"):            # default / function post-selection objects
        return ("PSobj", type(x).__name__, canon(vars(x)) if hasattr(x, "__dict__") else None)
    if isinstance(x, CompiledCircuit):
        return ("CC", canon(x.U_full), canon(x.heralds), x.n_modes)
    if isinstance(x, SimulationResult):
        return ("Res", canon(x.array), canon(list(x.inputs)), canon(list(x.outputs)),
                canon({k: v for k, v in vars(x).items() if not k.startswith("_")}))
    raise TypeError(type(x))


def fingerprint(obj, w=None):
    """State key: everything the emulator object holds, plus the user's side of the world that later operations act
    on (the post-selection object the user kept, the parameter value) - two histories are merged only when both agree."""
    user = None
    if w is not None:
        user = ("unset" if w.ps is UNSET else None if w.ps is None else
                ps_key(w.ps), repr(w.par.get()), tuple(sorted(w.src.items())))
    return kernel.fp8((canon(vars(obj)), user))


def dist_obs(fn):
    try:
        d = fn()
    except Exception as e:  # noqa: BLE001
        return ("raise", type(e).__name__)
    return ("ok", tuple(sorted((tuple(k.s), round(float(v), 9)) for k, v in d.items())))


def law_obs(fn, acc):
    try:
        d, _ = law(fn, acc)
    except Exception as e:  # noqa: BLE001
        return ("raise", type(e).__name__)
    return ("ok", tuple(sorted((k, round(v, 9)) for k, v in d.items())))


def agree(a, b):
    """both refuse = agreement whatever the exception types"""
    if a[0] == "raise" and b[0] == "raise":
        return True
    return a == b


# ---------------------------------------------------------------------------
# worlds: circuits are rebuilt per replay so in-place edits stay per-history
# ---------------------------------------------------------------------------
UNSET = object()


def ps_key(ps):
    """Canonical form of a post-selection as the user configured it."""
    if ps is None:
        return None
    if hasattr(ps, "rules"):
        return tuple(r.as_tuple() for r in ps.rules)
    fn = getattr(ps, "function", ps)
    cells = tuple(c.cell_contents for c in (getattr(fn, "__closure__", None) or ()))
    return ("fn", getattr(fn, "__qualname__", "?"), cells)


def user_ps(obj_ps, w):
    """The post-selection as the user configured it: the object they assigned, else what the emulator object holds."""
    return obj_ps if w.ps is UNSET else w.ps


class World:
    def __init__(self, env):
        self.env = env
        u1, u2 = env.U[3], env.Usub[0]
        self.par = lw.Parameter(env.R[1])
        a = lw.Unitary(u1.copy()); a.herald(0, 2)
        b = lw.Unitary(u1.copy()); b.herald(1, 2)        # same U_full as a, herald carries a photon
        c = lw.Unitary(u2.copy()); c.herald(0, 0); c.loss(0, env.L[1])         # herald on another mode
        p = lw.Circuit(3); p.bs(0, reflectivity=self.par); p.bs(1); p.herald(0, 2, 1)  # herald in != out
        d = lw.Circuit(3); d.mode_swaps({0: 1, 1: 0}); d.herald(0, 2)     # a pure permutation: exact expected mappings
        e = lw.Unitary(u1.copy()); e.herald(1, 2, 0)     # as b on the input side, the herald leaves on another mode
        f = lw.Unitary(u1.copy()); f.herald(2, 2)        # two herald photons: threshold detectors cannot confirm this herald
        g = lw.Circuit(2); g.bs(0, reflectivity=env.R2); g.ps(1, env.PH[0]); g.bs(0, reflectivity=env.R[1], convention="H")   # no herald at all
        self.circ = {"a": a, "b": b, "c": c, "p": p, "d": d, "e": e, "f": f, "g": g}
        self.ps = UNSET        # the post-selection object the USER last handed over (and may keep editing)
        self.src = {"brightness": 1, "purity": 1, "indistinguishability": 1}    # the source the USER last configured
        # "bad": right length, invalid occupation - the assignment must be refused and change nothing
        self.inputs = {"10": lw.State([1, 0]), "01": lw.State([0, 1]), "11": lw.State([1, 1]), "bad": lw.State([True, False])}


def mk_source(kind, env):
    return {"ideal": lambda: None, "dim": lambda: emu.Source(brightness=env.R2),
            "ind": lambda: emu.Source(indistinguishability=env.L2)}[kind]()


def _mode_rule(m):
    return lambda st: st[m] == 1          # predicates from one factory: same code, different captured mode


def mk_ps(kind):
    if kind == "none":
        return None
    if kind in ("fn0", "fn1"):
        return _mode_rule(int(kind[2]))
    p = lw.PostSelection()
    if kind == "empty": return p      # no rule yet: rules may be added later to this very object
    if kind == "r0": p.add(0, (0, 1))
    elif kind == "r1": p.add(1, 1)
    else: p.add(0, 5)              # "rX": no output can satisfy it - the computation is refused
    return p


DET_EFF = 0.75      # imperfect detection: sampling then also caches states outside the distribution


# ---------------- Sampler
def sampler_alphabet(env, tier):
    a = [("circuit", k) for k in "abcpefg"] + [("param", v) for v in (env.R[1], env.L[1])] \
        + [("input", k) for k in ("10", "01", "bad")] + [("source", k) for k in ("ideal", "dim", "ind")] \
        + [("src_inplace", "brightness", 1.0), ("src_inplace", "brightness", env.R2),
           ("backend", "permanent"), ("backend", "slos"), ("read",), ("draw",),
           ("det", 1, True), ("det_inplace", "photon_counting", False), ("det_inplace", "efficiency", DET_EFF),
           ("edit", "nudge")]
    if tier == "thorough":
        a += [("det", DET_EFF, False), ("det_inplace", "p_dark", 0.05), ("input", "11"), ("src_inplace", "indistinguishability", 0.5), ("edit", "bs"), ("edit", "herald")]
    return a


def sampler_apply(s, w, op):
    k = op[0]
    if k == "circuit": s.circuit = w.circ[op[1]]
    elif k == "param": w.par.set(op[1])
    elif k == "input": s.input_state = w.inputs[op[1]]
    elif k == "source":
        s.source = mk_source(op[1], w.env)       # "ideal" assigns None: documented as "a perfect source"
        w.src = {"brightness": w.env.R2 if op[1] == "dim" else 1, "purity": 1,
                 "indistinguishability": w.env.L2 if op[1] == "ind" else 1}
    elif k == "src_inplace":
        setattr(s.source, op[1], op[2])
        w.src[op[1]] = op[2]
    elif k == "backend": s.backend = op[1]
    elif k == "read": s.probability_distribution
    elif k == "draw":            # every sampling path once (each may refuse on its own)
        # sample() draws from Python's global generator (which the seeded calls re-seed from the OS when they finish):
        # own it before every call, so that a history replays identically
        for call in (lambda: s.sample_N_inputs(40, seed=1), s.sample, lambda: s.sample_N_outputs(3, seed=1),
                     # calls that restrict what is returned (per call: nothing of it may stick to the sampler)
                     lambda: s.sample_N_outputs(3, seed=1, min_detection=1),
                     lambda: s.sample_N_outputs(2, seed=1, post_select=lambda st: st[0] == 0),
                     lambda: s.sample_N_inputs(10, seed=1, min_detection=1, post_select=lambda st: st[0] == 0)):
            pyrandom.seed(20260927)
            try:
                call()
            except Exception:  # noqa: BLE001
                pass
    elif k == "det": s.detector = emu.Detector(efficiency=op[1], photon_counting=op[2])
    elif k == "det_inplace": setattr(s.detector, op[1], op[2])
    elif k == "edit":
        if op[1] == "bs": s.circuit.bs(0, 1, reflectivity=0.21)
        elif op[1] == "nudge": w.par.set(w.par.get() + 2e-6)       # a finite-difference sized parameter step
        else: s.circuit.herald(0, 0)
    else: raise KeyError(op)


def sampler_build(hist, env):
    w = World(env)
    s = emu.Sampler(w.circ["b"], w.inputs["10"], detector=emu.Detector(efficiency=DET_EFF))
    for op in hist:
        try:
            sampler_apply(s, w, op)
        except Exception:  # noqa: BLE001   (a refused reconfiguration is part of the history)
            pass
    return s, w


def sampler_observe(build, acc):
    """Four observations, each on its own replay (reading mutates the cache). A fresh object may
    already be refused by its constructor: that counts as refusing every observation."""
    o1 = dist_obs(lambda: build()[0].probability_distribution)
    o2 = law_obs_b(build, lambda s: tuple(s.sample().s), acc)
    o3 = law_obs_b(build, lambda s: result_key(s.sample_N_inputs(1, seed=1)), acc)
    o4 = law_obs_b(build, lambda s: result_key(s.sample_N_outputs(1, seed=1)), acc)
    return (o1, o2, o3, o4)


def law_obs_b(build, fn, acc):
    try:
        obj = build()[0]
    except Exception as e:  # noqa: BLE001
        return ("raise", type(e).__name__)
    return law_obs(lambda: fn(obj), acc)


def sampler_fresh(s, w):
    def build():
        # the source as the user configured it (not as the live object reports it)
        src = emu.Source(brightness=w.src["brightness"], purity=w.src["purity"],
                         indistinguishability=w.src["indistinguishability"],
                         probability_threshold=s.source.probability_threshold)
        det = emu.Detector(efficiency=s.detector.efficiency, p_dark=s.detector.p_dark,
                           photon_counting=s.detector.photon_counting)
        return emu.Sampler(s.circuit, s.input_state, source=src, detector=det, backend=s.backend.backend), w
    return build


def sampler_config(s, w=None):
    return kernel.fp8((full_fingerprint(s.circuit), tuple(s.input_state.s), s.backend.backend,
                       s.detector.efficiency, s.detector.p_dark, s.detector.photon_counting,
                       s.source.brightness, s.source.purity, s.source.indistinguishability,
                       tuple(sorted(w.src.items())) if w is not None else None))


# ---------------- QuickSampler
def quick_alphabet(env, tier):
    a = [("circuit", k) for k in "abcpeg"] + [("param", v) for v in (env.R[1], env.L[1])] \
        + [("input", k) for k in ("10", "01", "11", "bad")] + [("ps", k) for k in ("none", "r0", "r1", "rX", "empty", "fn0", "fn1")] \
        + [("pc", True), ("pc", False), ("read",), ("draw",), ("ps_inplace",)]
    if tier == "thorough":
        a += [("edit", "bs"), ("edit", "herald")]
    return a


def quick_apply(q, w, op):
    k = op[0]
    if k == "circuit": q.circuit = w.circ[op[1]]
    elif k == "param": w.par.set(op[1])
    elif k == "input": q.input_state = w.inputs[op[1]]
    elif k == "ps":
        p = mk_ps(op[1]); q.post_select = p; w.ps = p
    elif k == "ps_inplace": user_ps(q.post_select, w).add(1, 1)      # a rule added to the object handed over earlier
    elif k == "pc": q.photon_counting = op[1]
    elif k == "read": q.probability_distribution
    elif k == "draw":
        for call in (q.sample, lambda: q.sample_N_outputs(2, seed=1)):
            pyrandom.seed(20260927)
            try:
                call()
            except Exception:  # noqa: BLE001
                pass
    elif k == "edit":
        if op[1] == "bs": q.circuit.bs(0, 1, reflectivity=0.21)
        else: q.circuit.herald(0, 0)
    else: raise KeyError(op)


def quick_build(hist, env):
    w = World(env)
    q = emu.QuickSampler(w.circ["b"], w.inputs["10"])
    for op in hist:
        try:
            quick_apply(q, w, op)
        except Exception:  # noqa: BLE001
            pass
    return q, w


def quick_observe(build, acc):
    o1 = dist_obs(lambda: build()[0].probability_distribution)
    o2 = law_obs_b(build, lambda q: tuple(q.sample().s), acc)
    o3 = law_obs_b(build, lambda q: result_key(q.sample_N_outputs(1, seed=1)), acc)
    return (o1, o2, o3)


def quick_fresh(q, w):
    def build():
        return emu.QuickSampler(q.circuit, q.input_state, photon_counting=q.photon_counting,
                                post_select=user_ps(q.post_select, w)), w
    return build


def quick_config(q, w):
    return kernel.fp8((full_fingerprint(q.circuit), tuple(q.input_state.s), q.photon_counting,
                       ps_key(user_ps(q.post_select, w))))


# ---------------- Analyzer
def analyzer_alphabet(env, tier):
    return [("circuit", k) for k in "abcd"] + [("ps", k) for k in ("none", "r0", "r1", "rX", "empty")] \
        + [("ps_inplace",), ("analyze", "10", None), ("analyze", "01", "same"), ("analyze", "both", "swap"), ("analyze", "both", None)]


def analyzer_call(an, w, which, exp):
    ins = [w.inputs["10"], w.inputs["01"]] if which == "both" else [w.inputs[which]]
    if exp is None:
        return an.analyze(ins)
    if exp == "same":
        e = {i: i for i in ins}
    else:
        e = {i: [ins[(k + 1) % len(ins)], i] for k, i in enumerate(ins)}
    return an.analyze(ins, expected=e)


def analyzer_apply(an, w, op):
    k = op[0]
    if k == "circuit": an.circuit = w.circ[op[1]]
    elif k == "ps":
        p = mk_ps(op[1]); an.post_selection = p; w.ps = p
    elif k == "ps_inplace": user_ps(an.post_selection, w).add(1, 1)
    elif k == "analyze": analyzer_call(an, w, op[1], op[2])
    else: raise KeyError(op)


def analyzer_build(hist, env):
    w = World(env)
    an = emu.Analyzer(w.circ["a"])
    for op in hist:
        try:
            analyzer_apply(an, w, op)
        except Exception:  # noqa: BLE001
            pass
    return an, w


def result_obs(fn):
    try:
        r = fn()
    except Exception as e:  # noqa: BLE001
        return ("raise", type(e).__name__)
    def num(v):
        v = float(v)
        return "nan" if v != v else round(v, 9)       # NaN (0/0 error rate of an all-rejecting selection) equals itself here
    extra = {k: (num(v) if isinstance(v, (int, float, np.floating)) else repr(v))
             for k, v in vars(r).items() if not k.startswith("_")}
    return ("ok", tuple(tuple(o.s) for o in r.outputs), np.round(r.array, 9).tobytes(),
            tuple(sorted(extra.items())))


def analyzer_observe(build, acc):
    out = []
    for which, exp in (("10", None), ("both", None), ("01", "same")):
        def call(which=which, exp=exp):
            an, w = build()
            return analyzer_call(an, w, which, exp)
        out.append(result_obs(call))
    return tuple(out)


def analyzer_fresh(an, w):
    def build():
        f = emu.Analyzer(an.circuit)
        f.post_selection = user_ps(an.post_selection, w)
        return f, w
    return build


def analyzer_config(an, w):
    return kernel.fp8((full_fingerprint(an.circuit),
                       ps_key(user_ps(an.post_selection, w))))


# ---------------------------------------------------------------------------
def explore(kind, env, tier, max_depth):
    build_h, alpha_f, observe, fresh, config = {
        "Sampler": (sampler_build, sampler_alphabet, sampler_observe, sampler_fresh, sampler_config),
        "QuickSampler": (quick_build, quick_alphabet, quick_observe, quick_fresh, quick_config),
        "Analyzer": (analyzer_build, analyzer_alphabet, analyzer_observe, analyzer_fresh, analyzer_config),
    }[kind]
    alpha = alpha_f(env, tier)
    fresh_cache = {}

    def check(hist, acc):
        live = observe(lambda: build_h(hist, env), acc)
        obj, w = build_h(hist, env)
        ck = config(obj, w)
        if ck not in fresh_cache:
            fresh_cache[ck] = observe(fresh(obj, w), acc)
        fr = fresh_cache[ck]
        case = {"object": kind, "history": hist, "seed": env.seed, "tier": tier}
        acc.tick("executions", len(live) * 2)
        names = {"Sampler": ["probability_distribution", "sample()", "sample_N_inputs(1)", "sample_N_outputs(1)"],
                 "QuickSampler": ["probability_distribution", "sample()", "sample_N_outputs(1)"],
                 "Analyzer": ["analyze(10)", "analyze(both)", "analyze(01, expected)"]}[kind]
        for nm, a, b in zip(names, live, fr):
            if not agree(a, b):
                acc.violation("differs_from_fresh_object", {**case, "observation": nm},
                              {"live": a if a[0] == "raise" else "ok(%d outcomes)" % len(a[1]),
                               "fresh": b if b[0] == "raise" else "ok(%d outcomes)" % len(b[1])})
                break
        if kind != "Analyzer" and live[0][0] == "ok":
            for nm, a in zip(names[1:], live[1:]):
                if a[0] == "raise" and a[1] not in ("SamplerError",):
                    acc.violation("sampling_needs_prior_read", {**case, "observation": nm}, {"error": a[1]})
                    break
        if kind == "Analyzer":
            for nm, a in zip(names[:2], live[:2]):
                if a[0] == "ok" and any(k == "error_rate" for k, _ in a[3]):
                    acc.violation("result_holds_quantity_of_earlier_call", {**case, "observation": nm}, None)
                    break
        acc.outcome("%s:%s" % (kind, ",".join(o[0] for o in live)))
        if len(hist) >= 2:
            acc.nontriv(kind, ck, live[0][0])

    def expand(hist):
        acc = kernel.Acc()
        succ = []
        if hist == ():
            check((), acc)
        for op in alpha:
            if op[0] == "edit" and op in hist:
                continue          # each in-place circuit edit at most once per history: keeps the space finite
            h = hist + (op,)
            obj, ww = build_h(h, env)
            acc.tick("transitions")
            succ.append((fingerprint(obj, ww), h))
        # invariant on every *new* state is evaluated by the parent after dedup (see below)
        return acc, succ

    # level-synchronous BFS with the invariant evaluated on each newly discovered state
    seen = {fingerprint(*build_h((), env)): ()}
    frontier = [()]
    total = kernel.Acc()
    depth = 0
    closed = False
    while frontier and depth < max_depth:
        def shard_fn(hists):
            acc = kernel.Acc()
            succ = []
            for hh in hists:
                a, s = expand(hh)
                acc.merge(a); succ.extend(s)
            acc._succ = succ
            return acc
        results = kernel._pmap_raw(shard_fn, kernel.interleave(frontier, kernel.NPROC * 2))
        nxt = []
        for r in results:
            for key, hh in r._succ:
                if key not in seen:
                    seen[key] = hh
                    nxt.append(hh)
            r._succ = None
            total.merge(r)

        def check_fn(hists):
            acc = kernel.Acc()
            fresh_cache.clear()      # memoise within one shard only: which worker gets which shard is up to the pool,
            for hh in hists:         # and the counters reported must not depend on it
                check(hh, acc)
            return acc
        if nxt:
            total.merge(kernel.pmap(check_fn, kernel.interleave(nxt, kernel.NPROC * 2)))
        frontier = nxt
        depth += 1
    closed = not frontier
    total.counts["states_" + kind] = len(seen)
    total.counts["depth_" + kind] = depth
    for key in list(seen)[:0]:
        pass
    for k in seen:
        total.states.add(k)
    return total, len(seen), closed, depth, len(alpha)


def check_sampling_keeps_distribution(env, acc):
    """A coarse truncation leaves a distribution whose total is visibly below 1, so sampling re-normalises what it
    hands to the generator; the distribution the object REPORTS must stay the one a fresh object reports."""
    from ..circuit_ops import build
    old = lw.settings.sampler_probability_threshold
    lw.settings.sampler_probability_threshold = 2e-3
    try:
        for rc, vin in (({"name": "weak3", "n": 3, "ops": [("bs", 0, 1, 0.999, "Rx", 0), ("bs", 1, 2, 0.9992, "H", 0),
                                                            ("ps", 0, env.PH[0], 0)]}, (1, 1, 0)),
                        ({"name": "weak3_herald", "n": 3, "ops": [("bs", 0, 1, 0.9985, "Rx", 0), ("bs", 2, 1, 0.9991, "Rx", 0),
                                                                   ("her", 1, 2, 2)]}, (1, 0))):
            c, _ = build(rc, env)
            for calls in (("sample_N_inputs",), ("sample_N_outputs",), ("sample_N_inputs", "sample_N_inputs"),
                          ("sample_N_outputs", "sample_N_inputs")):
                case = {"scenario": "sampling_keeps_distribution", "recipe": rc, "input": vin, "calls": calls, "seed": env.seed}
                acc.tick("executions"); acc.tick("transitions", len(calls))
                s = emu.Sampler(c, lw.State(list(vin)))
                d0 = {tuple(k.s): float(v) for k, v in s.probability_distribution.items()}
                try:
                    for m in calls:
                        getattr(s, m)(5, seed=3)
                except Exception as e:  # noqa: BLE001
                    acc.violation("sampling_raises", case, {"error": repr(e)})
                    continue
                d1 = {tuple(k.s): float(v) for k, v in s.probability_distribution.items()}
                df = {tuple(k.s): float(v) for k, v in emu.Sampler(c, lw.State(list(vin))).probability_distribution.items()}
                if d1 != df or d0 != df:
                    acc.violation("differs_from_fresh_object", case,
                                  {"before_sampling": d0, "after_sampling": d1, "fresh": df})
                acc.state("renorm", rc["name"], calls)
                if abs(sum(df.values()) - 1) > 1e-6:
                    acc.nontriv("renorm", rc["name"], calls)
    finally:
        lw.settings.sampler_probability_threshold = old


def run(tier, seed):
    env = Env(seed)
    acc = kernel.Acc()
    bounds = {}
    caps = []
    plan = {"quick": {"Sampler": 3, "QuickSampler": 4, "Analyzer": 6},
            "thorough": {"Sampler": 5, "QuickSampler": 10, "Analyzer": 20}}[tier]
    for kind, md in plan.items():
        a, n, closed, d, na = explore(kind, env, tier, md)
        acc.merge(a)
        bounds[kind] = {"states": n, "closed": closed, "depth": d, "alphabet": na}
        if not closed:
            caps.append("%s: depth bound %d reached before closure (%d states)" % (kind, md, n))
    check_sampling_keeps_distribution(env, acc)
    acc.sample({"object": "Sampler", "history": [("circuit", "b"), ("read",), ("circuit", "a"), ("src_inplace", "brightness", 1.0)],
                "observed": ["probability_distribution", "law of sample()", "law of sample_N_inputs(1)",
                             "law handed to rng.choice by sample_N_outputs(1)"]})
    meta = {
        "rule": "BFS over reconfiguration histories of a long-lived Sampler / QuickSampler / Analyzer: circuit swapped "
                "among {a, b = same U_full but photon-carrying herald, c = other unitary with loss, p = parameterised}, "
                "parameter values, inputs, source replaced and mutated in place, backend, post-selection, detector mode, "
                "distribution reads, sampling calls, (thorough) in-place circuit edits; states deduplicated on the "
                "complete vars() of the object; on every state every observation (distribution; exact laws of the "
                "sampling methods via E3; analysis results) must equal that of a freshly built object in the same "
                "configuration, sampling must work whenever reading works, and an analysis result must not carry "
                "error_rate unless expected was passed to that call. Plus: under a coarse truncation (distribution total "
                "visibly below 1) sampling calls must not change the reported distribution. distinct_nontrivial = distinct (object, "
                "configuration, verdict) reached by histories of length >= 2.",
        "exhaustive": not caps,
        "bounds": bounds,
        "caps_hit": caps,
        "assumptions": ["two histories with equal vars() have equal futures (the code is deterministic once the random "
                        "sources are owned), so merging them is sound"],
    }
    return acc, meta


def replay(w, acc):
    from .c01 import _tup
    case = w["case"]
    env = Env(case.get("seed", 0))
    if case.get("scenario") == "sampling_keeps_distribution":
        check_sampling_keeps_distribution(env, acc)
        return
    kind = case["object"]
    hist = tuple(_tup(o) for o in case["history"])
    build_h, observe, fresh = {"Sampler": (sampler_build, sampler_observe, sampler_fresh),
                               "QuickSampler": (quick_build, quick_observe, quick_fresh),
                               "Analyzer": (analyzer_build, analyzer_observe, analyzer_fresh)}[kind]
    live = observe(lambda: build_h(hist, env), acc)
    obj, ww = build_h(hist, env)
    fr = observe(fresh(obj, ww), acc)
    for a, b in zip(live, fr):
        if not agree(a, b):
            acc.violation("differs_from_fresh_object", case, {"live": a[0], "fresh": b[0]})
            return
    if kind != "Analyzer" and live[0][0] == "ok" and any(a[0] == "raise" for a in live[1:]):
        acc.violation("sampling_needs_prior_read", case, None)
    if kind == "Analyzer":
        for a in live[:2]:
            if a[0] == "ok" and any(k == "error_rate" for k, _ in a[3]):
                acc.violation("result_holds_quantity_of_earlier_call", case, None)
