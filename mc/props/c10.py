"""C10 — parameters are live, bounded and freezable (E2: the Parameter automaton
runs to closure; parameters x circuit templates explored by BFS to a depth bound)."""
from __future__ import annotations

import numpy as np

import lightworks as lw

from .. import kernel
from ..circuit_ops import Env, spec_struct
from ..ref_circuit import RefCircuit, compare_scatter, impl_scatter

PERR = (lw.ParameterValueError, lw.ParameterBoundsError)


# ---------------------------------------------------------------------------
# part A: the Parameter automaton (closes)
# ---------------------------------------------------------------------------
def snap(p):
    return (repr(p.get()), repr(p.min_bound), repr(p.max_bound))


def in_bounds(p):
    v, lo, hi = p.get(), p.min_bound, p.max_bound
    if isinstance(v, float) and v != v:
        return True           # NaN against bounds is outside the alphabet (DESIGN 6); only its effect on circuits is checked
    if isinstance(v, str) or isinstance(v, bool):
        return lo is None and hi is None
    return (lo is None or v >= lo) and (hi is None or v <= hi)


def automaton(env, acc, via_dict):
    g = env.R[1]
    vals = [0, g, 1, 1.5, -0.2, "x", True]
    bnds = [None, 0, env.R2, 1, 2, "b"]
    ops = [("set", v) for v in vals] + [("min", b) for b in bnds] + [("max", b) for b in bnds]

    def fresh():
        p = lw.Parameter(g)
        pd = lw.ParameterDict()
        pd["k"] = p
        return p, pd

    def apply(p, pd, op):
        if op[0] == "set":
            if via_dict:
                pd["k"] = op[1]
            else:
                p.set(op[1])
        elif op[0] == "min":
            p.min_bound = op[1]
        else:
            p.max_bound = op[1]

    def build(hist):
        p, pd = fresh()
        for op in hist:
            try:
                apply(p, pd, op)
            except PERR:
                pass
        return p, pd

    def check(hist, pool, acc_):
        pass

    seen = {snap(fresh()[0]): ()}
    frontier = [()]
    while frontier:
        nxt = []
        for hist in frontier:
            for op in ops:
                p, pd = build(hist)
                before = snap(p)
                acc.tick("transitions"); acc.tick("executions")
                case = {"part": "automaton", "via_dict": via_dict, "history": hist, "op": op, "seed": env.seed}
                try:
                    apply(p, pd, op)
                    raised = None
                except PERR as e:
                    raised = e
                except Exception as e:  # noqa: BLE001
                    acc.violation("undocumented_exception_from_update", case, {"error": repr(e)})
                    continue
                after = snap(p)
                if raised is not None:
                    acc.tick("rejected_calls")
                    if after != before:
                        acc.violation("rejected_update_changed_parameter", case, {"before": before, "after": after})
                if not in_bounds(p):
                    acc.violation("value_outside_bounds", case, {"state": after})
                if pd["k"] is not p or pd.items() != [("k", p.get())]:
                    acc.violation("parameter_dict_out_of_sync", case, None)
                if raised is None and after != before:
                    acc.nontriv("A", via_dict, after)
                acc.outcome("A:%s:%s" % (op[0], "rejected" if raised else "ok"))
                if after not in seen:
                    seen[after] = hist + (op,)
                    nxt.append(hist + (op,))
                    acc.state("A", via_dict, after)
        frontier = nxt
    return len(seen)


# ---------------------------------------------------------------------------
# part B: parameters inside circuits
# ---------------------------------------------------------------------------
TEMPLATES = ["bs", "ps", "loss", "bsloss", "group", "herald", "twice", "nested", "pre_herald", "nonadj", "plus", "sandwich"]


def make_template(name, p, p2, env):
    """Real circuit using the live Parameter objects p, p2."""
    if name == "bs":
        c = lw.Circuit(2); c.bs(0, 1, reflectivity=p, convention="H")
    elif name == "ps":
        c = lw.Circuit(2); c.bs(0); c.ps(1, p); c.bs(0)
    elif name == "loss":
        c = lw.Circuit(2); c.bs(0); c.loss(0, p)
    elif name == "bsloss":
        c = lw.Circuit(2); c.bs(1, 0, reflectivity=env.R2, loss=p)
    elif name == "group":
        s = lw.Circuit(2); s.bs(0, reflectivity=p)
        c = lw.Circuit(3); c.add(s, 1, group=True); c.ps(0, p2)
    elif name == "herald":
        s = lw.Circuit(3); s.bs(0, reflectivity=env.R[1]); s.ps(1, p2); s.bs(1, 2, reflectivity=p); s.herald(0, 2)
        c = lw.Circuit(3); c.add(s, 1); c.bs(0, 2, reflectivity=p)
    elif name == "twice":
        c = lw.Circuit(3); c.bs(0, 1, reflectivity=p); c.ps(0, p); c.bs(1, 2, reflectivity=p2); c.loss(2, p)
    elif name == "nested":
        s = lw.Circuit(2); s.bs(0, reflectivity=p); s.ps(0, p2)
        m = lw.Circuit(3); m.add(s, 0, group=True); m.bs(1, 2, reflectivity=p2)
        c = lw.Circuit(4); c.add(m, 1, group=True); c.add(s, 0)
    elif name == "nonadj":         # non-adjacent beam splitter and swaps: the in-place rewrites have work to do
        c = lw.Circuit(3); c.mode_swaps({0: 1, 1: 0}); c.bs(2, 0, reflectivity=p, convention="H")
        c.mode_swaps({1: 2, 2: 1}); c.ps(1, p2); c.mode_swaps({0: 2, 2: 0})
    elif name == "sandwich":       # a swap and its inverse around parametrised elements (which may currently be 0 = identity)
        c = lw.Circuit(3); c.mode_swaps({0: 1, 1: 2, 2: 0}); c.loss(0, p); c.ps(1, p)
        c.mode_swaps({1: 0, 2: 1, 0: 2}); c.bs(0, 1)
    elif name == "plus":           # the sum of two circuits follows the parameters of both operands
        a = lw.Circuit(2); a.bs(0, reflectivity=p)
        b = lw.Circuit(2); b.ps(0, p2); b.bs(0, reflectivity=p, convention="H")
        c = a + b
    elif name == "pre_herald":     # parameters already in the host when a heralded sub-circuit is added
        c = lw.Circuit(3); c.bs(0, 1, reflectivity=p); c.ps(2, p2); c.loss(1, p)
        g = lw.Circuit(2); g.bs(0, reflectivity=p2); c.add(g, 1, group=True)
        s = lw.Circuit(3); s.bs(0, reflectivity=env.R[1]); s.bs(1, 2, reflectivity=env.R2, convention="H"); s.herald(1, 1)
        c.add(s, 0)
    else:
        raise KeyError(name)
    return c


def ref_template(name, v, v2, env):
    """RefCircuit at values (v, v2); returns None if a value is invalid for its slot."""
    def unit(x):
        return isinstance(x, (int, float)) and not isinstance(x, bool) and 0 <= x <= 1
    if name == "bs":
        if not unit(v): return None
        r = RefCircuit(2); r.bs(0, 1, v, "H")
    elif name == "ps":
        if isinstance(v, float) and v != v: return "skip"        # a NaN phase: outside the alphabet (DESIGN 6)
        r = RefCircuit(2); r.bs(0, 1, 0.5); r.ps(1, v); r.bs(0, 1, 0.5)
    elif name == "loss":
        if not unit(v): return None
        r = RefCircuit(2); r.bs(0, 1, 0.5); r.loss(0, v)
    elif name == "bsloss":
        if not unit(v): return None
        r = RefCircuit(2); r.bs(1, 0, env.R2); r.loss(1, v); r.loss(0, v)
    elif name == "group":
        if not unit(v): return None
        r = RefCircuit(3); r.bs(1, 2, v); r.ps(0, v2)
    elif name == "herald":
        if not unit(v): return None
        s = RefCircuit(3); s.bs(0, 1, env.R[1]); s.ps(1, v2); s.bs(1, 2, v); s.herald(0, 2, 2)
        r = RefCircuit(3); r.add(s, 1); r.bs(0, 2, v)
    elif name == "twice":
        if not (unit(v) and unit(v2)): return None
        r = RefCircuit(3); r.bs(0, 1, v); r.ps(0, v); r.bs(1, 2, v2); r.loss(2, v)
    elif name == "nested":
        if not (unit(v) and unit(v2)): return None
        r = RefCircuit(4)
        r.bs(1, 2, v); r.ps(1, v2); r.bs(2, 3, v2)
        r.bs(0, 1, v); r.ps(0, v2)
    elif name == "nonadj":
        if not unit(v): return None
        r = RefCircuit(3); r.swaps({0: 1, 1: 0}); r.bs(2, 0, v, "H"); r.swaps({1: 2, 2: 1}); r.ps(1, v2)
        r.swaps({0: 2, 2: 0})
    elif name == "sandwich":
        if not unit(v): return None
        r = RefCircuit(3); r.swaps({0: 1, 1: 2, 2: 0}); r.loss(0, v); r.ps(1, v); r.swaps({1: 0, 2: 1, 0: 2}); r.bs(0, 1, 0.5)
    elif name == "plus":
        if not unit(v): return None
        r = RefCircuit(2); r.bs(0, 1, v); r.ps(0, v2); r.bs(0, 1, v, "H")
    elif name == "pre_herald":
        if not (unit(v) and unit(v2)): return None
        r = RefCircuit(3); r.bs(0, 1, v); r.ps(2, v2); r.loss(1, v); r.bs(1, 2, v2)
        s = RefCircuit(3); s.bs(0, 1, env.R[1]); s.bs(1, 2, env.R2, "H"); s.herald(1, 1, 1)
        r.add(s, 0)
    else:
        raise KeyError(name)
    return r


N_PARAMS = {"sandwich": 1, "plus": 2, "bs": 1, "ps": 1, "loss": 1, "bsloss": 1, "group": 2, "herald": 2, "twice": 2, "nested": 2, "pre_herald": 2, "nonadj": 2}


class World:
    def __init__(self, env):
        self.env = env
        self.p = lw.Parameter(env.R[1], label="p")
        self.p2 = lw.Parameter(env.R2, label="p")      # same label: only identity tells the two apart
        self.pd = lw.ParameterDict(a=self.p, b=self.p2)
        self.pdmap = {"a": self.p, "b": self.p2}        # what the dictionary must hold, by key
        self.circs = []     # dicts: tmpl, circ, frozen (None | (v, v2))

    def key(self):
        return (snap(self.p), snap(self.p2), tuple(k + ("1" if v is self.p else "2") for k, v in self.pdmap.items()),
                tuple((c["tmpl"], c["kind"], repr(c["frozen"]), self.struct(c["circ"])) for c in self.circs))

    @staticmethod
    def struct(c):
        # the structure the in-place rewrites leave behind is part of the state: what a later parameter update does
        # depends on it (parameter values appear as "live" so that the structure, not the value, is what is keyed)
        def strip(t):
            if isinstance(t, tuple):
                if len(t) == 5 and t[0] == "P":
                    return "P"
                return tuple(strip(x) for x in t)
            return t
        return kernel.fp8(repr(strip(spec_struct(c._get_circuit_spec()))))


def apply_b(w, op):
    """returns 'ok' | 'rejected' ; raises Skip when not enabled."""
    k = op[0]
    try:
        if k == "set":
            w.p.set(op[1])
        elif k == "set2":
            w.p2.set(op[1])
        elif k == "pdset":
            w.pd["a"] = op[1]
        elif k == "pd_overwrite":       # an existing key cannot be re-pointed at another Parameter
            try:
                w.pd["a"] = lw.Parameter(0.9)
            except lw.ParameterDictError:
                return "rejected"
            w.pdmap["a"] = None
        elif k == "pd_alias":           # a second key for p2; later updates through it reach p2
            if "c" in w.pdmap:
                raise kernel.Skip()
            w.pd["c"] = w.p2
            w.pdmap["c"] = w.p2
        elif k == "pd_alias_set":
            if "c" not in w.pdmap:
                raise kernel.Skip()
            w.pd["c"] = op[1]
        elif k == "pd_remove":          # forgetting a key does not detach the Parameter from its circuits
            if "b" not in w.pdmap:
                raise kernel.Skip()
            w.pd.remove("b")
            del w.pdmap["b"]
        elif k == "pd_new_plain":       # a new key must be given a Parameter
            try:
                w.pd["z"] = 0.3
            except lw.ParameterDictError:
                return "rejected"
            w.pdmap["z"] = None
        elif k == "minb":
            w.p.min_bound = op[1]
        elif k == "maxb":
            w.p.max_bound = op[1]
        elif k == "make":
            try:
                c = make_template(op[1], w.p, w.p2, w.env)
            except (ValueError, TypeError):
                return "rejected"      # construction validates the current value of loss parameters
            w.circs = (w.circs + [{"tmpl": op[1], "kind": "live", "circ": c, "frozen": None}])[-2:]
        elif k in ("copy", "freeze"):
            if not w.circs:
                raise kernel.Skip()
            src = w.circs[-1]
            if k == "copy":
                new = {"tmpl": src["tmpl"], "kind": src["kind"], "circ": src["circ"].copy(), "frozen": src["frozen"]}
            else:
                try:
                    cc = src["circ"].copy(freeze_parameters=True)
                except Exception:  # noqa: BLE001
                    return "rejected"
                fr = src["frozen"] if src["frozen"] is not None else (w.p.get(), w.p2.get())
                new = {"tmpl": src["tmpl"], "kind": "frozen", "circ": cc, "frozen": fr}
            w.circs = (w.circs + [new])[-2:]
        elif k == "rewrite":
            # in-place rewrites of a live circuit: it must keep following its parameters afterwards
            if not w.circs:
                raise kernel.Skip()
            c = w.circs[-1]["circ"]
            try:
                {"unpack": c.unpack_groups, "compress": c.compress_mode_swaps,
                 "remove_nonadj": c.remove_non_adjacent_bs}[op[1]]()
            except (ValueError, lw.CircuitCompilationError):      # a currently invalid value may be refused
                return "rejected"
        else:
            raise KeyError(op)
    except PERR:
        return "rejected"
    return "ok"


def check_world(w, case, acc):
    env = w.env
    for p in (w.p, w.p2):
        if not in_bounds(p):
            acc.violation("value_outside_bounds", case, {"state": snap(p)})
    # the dictionary is a view of the same objects
    inf = float("inf")
    want_b = {k: (q.min_bound if q.min_bound is not None else -inf, q.max_bound if q.max_bound is not None else inf)
              for k, q in w.pdmap.items() if q is not None}
    try:
        ok = (list(w.pd) == list(w.pdmap) and len(w.pd) == len(w.pdmap) and w.pd.params == list(w.pdmap)
              and all(w.pd[k] is q for k, q in w.pdmap.items())
              and w.pd.items() == [(k, q.get()) for k, q in w.pdmap.items()]
              and w.pd.get_bounds() == want_b
              and w.pd.has_bounds() == any(q.has_bounds() for q in w.pdmap.values())
              and all(k in w.pd for k in w.pdmap) and "zz" not in w.pd)
    except Exception as e:  # noqa: BLE001
        ok = False
        acc.violation("parameter_dict_view_raises", case, {"error": repr(e)})
    if not ok:
        acc.violation("parameter_dict_out_of_sync", case, {"keys": list(w.pd.keys()), "expected": list(w.pdmap)})
    for item in w.circs:
        v, v2 = item["frozen"] if item["frozen"] is not None else (w.p.get(), w.p2.get())
        ref = ref_template(item["tmpl"], v, v2, env)
        if isinstance(ref, str):
            continue
        c = item["circ"]
        sub = {**case, "template": item["tmpl"], "kind": item["kind"], "values": [v, v2]}
        try:
            u = c.U
            err = None
        except lw.CircuitCompilationError as e:
            err = e
        except Exception as e:  # noqa: BLE001
            acc.violation("invalid_value_wrong_exception", sub, {"error": repr(e)})
            continue
        if ref is None:
            if err is None:
                acc.violation("invalid_value_not_reported", sub, None)
            else:
                acc.tick("compilation_errors_as_documented")
            continue
        if err is not None:
            acc.violation("valid_values_do_not_compile", sub, {"error": repr(err.__cause__)})
            continue
        # compare as heralded transformations (ancilla positions are the implementation's business)
        verdict, wit = compare_scatter(impl_scatter(c), ref.scatter(), 1e-9)
        if verdict != "ok":
            acc.violation("unitary_not_at_current_values" if item["kind"] == "live" else "frozen_copy_changed",
                          sub, {"verdict": verdict, "witness": wit})
        ps = c.get_all_params()
        if item["kind"] == "frozen":
            if ps:
                acc.violation("frozen_copy_lists_parameters", sub, {"n": len(ps)})
        else:
            want = [w.p, w.p2][: N_PARAMS[item["tmpl"]]]
            if len(ps) != len(want) or {id(x) for x in ps} != {id(x) for x in want}:
                acc.violation("get_all_params", sub, {"listed": len(ps), "expected": len(want)})


def explore_b(env, depth):
    g, g2 = env.R[1], env.L[1]
    alpha = [("set", v) for v in (g, g2, 0, 1, 1.5, -0.2, float("nan"))] + [("set2", v) for v in (env.R2, 1.25, g)] \
        + [("pdset", g2), ("pdset", 1.5), ("minb", 0), ("maxb", 1), ("maxb", None), ("minb", None)] \
        + [("pd_overwrite",), ("pd_alias",), ("pd_alias_set", 1.25), ("pd_alias_set", g2), ("pd_remove",), ("pd_new_plain",)] \
        + [("make", t) for t in TEMPLATES] + [("copy",), ("freeze",)] \
        + [("rewrite", r) for r in ("unpack", "compress", "remove_nonadj")]

    def observe(w):
        # what a user does between two steps: look at the circuits (U, parameter list); must not change anything
        for item in w.circs:
            try:
                item["circ"].U
            except Exception:  # noqa: BLE001
                pass
            item["circ"].get_all_params()

    def build(hist, reads=False):
        w = World(env)
        for op in hist:
            apply_b(w, op)
            if reads:
                observe(w)
        return w

    def expand(hist):
        acc = kernel.Acc()
        succ = []
        for op in alpha:
            w = build(hist)
            before = (snap(w.p), snap(w.p2))
            try:
                res = apply_b(w, op)
            except kernel.Skip:
                continue
            acc.tick("transitions"); acc.tick("executions")
            case = {"part": "circuits", "history": hist, "op": op, "seed": env.seed}
            if res == "rejected":
                acc.tick("rejected_calls")
                if (snap(w.p), snap(w.p2)) != before:
                    acc.violation("rejected_update_changed_parameter", case, None)
            check_world(w, case, acc)
            if any(h[0] in ("make", "copy", "freeze") for h in hist):
                # the same history with the circuits looked at after every step (reads are not part of the state, so
                # both variants are run from every state rather than making "read" an operation of its own)
                wr = build(hist, reads=True)
                apply_b(wr, op)
                acc.tick("executions")
                check_world(wr, {**case, "observed_after_every_step": True}, acc)
            acc.outcome("B:%s:%s" % (op[0], res))
            if res == "ok" and w.circs:
                acc.nontriv(w.key())
            succ.append((w.key(), hist + (op,)))
        return acc, succ

    return kernel.bfs_levels(expand, World(env).key(), depth), len(alpha)


def run(tier, seed):
    env = Env(seed)
    acc = kernel.Acc()
    nA = automaton(env, acc, via_dict=False)
    nA2 = automaton(env, acc, via_dict=True)
    depth = 4 if tier == "quick" else 6
    (b, nstates, closed, d), nalpha = explore_b(env, depth)
    acc.merge(b)
    acc.sample({"history": [("make", "herald"), ("set", 1.5), ("freeze",)], "op": ("set", 0),
                "checked": "U of every live circuit at current values, frozen copies at their own"})
    meta = {
        "rule": "(A) Parameter automaton: values {0,g,1,1.5,-0.2,'x',True} x bounds {None,0,g',1,2,'b'}, updates set / "
                "ParameterDict[key]= / min_bound= / max_bound=, run to closure directly and through a ParameterDict; "
                "(B) BFS over {set p (valid and invalid for the slot), set p2, dict update, bound changes, construct "
                "each of 12 placement templates (bs, ps, loss, bs-loss, grouped sub, heralded sub, same parameter "
                "twice, nested groups, host with parameters before a heralded add, non-adjacent bs + swaps, a + b, swap / "
                "inverse swap around parametrised elements), copy, freeze, unpack_groups / compress_mode_swaps / "
                "remove_non_adjacent_bs in place}; every state expanded twice: as is, and with U and the parameter list "
                "read after every step of its history; after every transition every live circuit's U equals RefCircuit "
                "at the current values (or raises CircuitCompilationError iff a value is invalid for its slot), frozen "
                "copies equal RefCircuit at their freeze-time values and list no parameters, get_all_params lists each "
                "parameter once. distinct_nontrivial = distinct states with >= 1 circuit (B) / changed parameter (A).",
        "exhaustive": True,
        "bounds": {"automaton_states": [nA, nA2], "automaton_closed": True, "circuit_bfs_depth": d,
                   "circuit_bfs_states": nstates, "circuit_alphabet": nalpha, "circuit_bfs_closed": closed},
        "caps_hit": [] if closed else ["part B stopped at depth %d" % depth],
        "assumptions": ["non-finite values are outside the alphabet"],
    }
    return acc, meta


def replay(w, acc):
    from .c01 import _tup
    case = w["case"]
    env = Env(case.get("seed", 0))
    if case.get("part") == "automaton":
        automaton(env, acc, case["via_dict"])
        return
    world = World(env)
    for op in [_tup(o) for o in case["history"]] + [_tup(case["op"])]:
        try:
            apply_b(world, op)
        except kernel.Skip:
            pass
        if case.get("observed_after_every_step") and op is not None:
            for item in world.circs:
                try:
                    item["circ"].U
                except Exception:  # noqa: BLE001
                    pass
                item["circ"].get_all_params()
    check_world(world, case, acc)
