"""C06 — imperfect-source model (E1 over source-parameter grid x inputs x circuits x backends)."""
from __future__ import annotations

import itertools
import math

import numpy as np

import lightworks as lw
from lightworks import emulator as emu

from .. import kernel, ref_fock, ref_noise
from ..circuit_ops import Env, build

THR = 1e-9


def circuits(env):
    g, g2 = env.L[1], env.L2
    return [
        {"name": "bs50", "n": 2, "ops": [("bs", 0, 1, 0.5, "Rx", 0)],
         "inputs": [(1, 0), (2, 0), (1, 1), (0, 0), (2, 1), (0, 3), (2, 2), (1, 3)]},
        {"name": "haar3", "n": 3, "ops": [("uni", 3, 0, False)],
         "inputs": [(1, 0, 1), (0, 2, 1), (1, 1, 1), (0, 0, 0), (1, 0, 0), (0, 0, 2), (1, 1, 2), (2, 0, 2)]},
        {"name": "haar3_lossy", "n": 3,
         "ops": [("loss", 2, g2), ("uni", 3, 0, False), ("loss", 0, g), ("bs", 0, 2, env.R[1], "H", 0)],
         "inputs": [(1, 0, 1), (0, 2, 1), (1, 1, 1), (0, 0, 0), (2, 0, 0)]},
        {"name": "haar3_herald", "n": 3, "ops": [("uni", 3, 0, False), ("her", 1, 2, 0)],
         "inputs": [(1, 0), (1, 1), (0, 0), (0, 2), (1, 2)]},
        {"name": "haar4_gaps", "n": 4, "ops": [("uni", 4, 0, False), ("loss", 1, g)],
         "inputs": [(1, 0, 0, 1), (0, 0, 1, 0), (1, 0, 0, 0)]},
    ]


def lib_classes(stats):
    """Physical classes of the library's input statistics."""
    out = {}
    for st, p in stats.items():
        if isinstance(st, lw.State):
            occ = tuple(st.s)
            key = (occ,) if sum(occ) else ()
        else:
            modes = st.s
            labels = {}
            for m, labs in enumerate(modes):
                for lab in labs:
                    labels.setdefault(lab, [0] * len(modes))[m] += 1
            key = tuple(sorted(tuple(v) for v in labels.values()))
        out[key] = out.get(key, 0.0) + float(p)
    return out


def check_config(rc, vin, params, env, acc, cache):
    b, pu, ind, thr = params
    c, _ = build(rc, env)
    uf = c.U_full
    keep = c.n_modes
    full_in = ref_fock.add_heralds(vin, c.heralds["input"])
    n_req = sum(full_in)
    K = math.comb(uf.shape[0] + 2 * n_req - 1, 2 * n_req) if n_req else 1
    tol = 50 * K * THR + 1e-10
    case = {"recipe": rc["name"], "ops": rc["ops"], "n": rc["n"], "input": vin, "brightness": b, "purity": pu,
            "indistinguishability": ind, "threshold": thr, "seed": env.seed}
    src0 = emu.Source(purity=pu, brightness=b, indistinguishability=ind)
    stats0 = src0._build_statistics(lw.State(list(full_in)))
    acc.tick("executions"); acc.tick("transitions")
    if thr and max(stats0.values()) < thr:
        # a threshold that removes every input: the statement does not say what should happen
        acc.tick("skipped_threshold_removes_everything")
        return
    # (i) unthresholded input statistics, per physical class
    ref_cls = ref_noise.source_classes(full_in, b, pu, ind)
    lc = lib_classes(stats0)
    if abs(sum(stats0.values()) - 1) > 1e-12 * max(1, len(stats0)):
        acc.violation("input_statistics_not_normalised", case, {"sum": float(sum(stats0.values()))})
    for k in set(lc) | set(ref_cls):
        if abs(lc.get(k, 0.0) - ref_cls.get(k, 0.0)) > 1e-12:
            acc.violation("input_class_probability", case,
                          {"class": k, "impl": lc.get(k, 0.0), "ref": ref_cls.get(k, 0.0)})
            break
    if src0.check_number(lw.State(list(full_in))) != len(stats0):
        acc.violation("check_number", case, None)
    # (ii) thresholding = drop entries below the threshold, renormalise
    # the documented positional order (purity, brightness, indistinguishability, threshold) for every other configuration
    if (len(vin) + sum(vin) + int(1000 * b) + int(1000 * ind)) % 2:
        src = emu.Source(pu, b, ind, thr)
    else:
        src = emu.Source(purity=pu, brightness=b, indistinguishability=ind, probability_threshold=thr)
    if thr:
        stats = src._build_statistics(lw.State(list(full_in)))
        kept = {s: p for s, p in stats0.items() if p >= thr}
        tot = sum(kept.values())
        want = {s: p / tot for s, p in kept.items()}
        if set(want) != set(stats) or any(abs(want[s] - stats[s]) > 1e-12 for s in want):
            acc.violation("thresholded_statistics", case, None)
        if src.check_number(lw.State(list(full_in))) != len(stats):
            acc.violation("check_number", case, None)
        mix_cls = lib_classes(stats)        # reference mixture uses the thresholded class weights
    else:
        mix_cls = ref_cls                    # end-to-end: nothing taken from the library
    # (iii) output distribution
    ckey = rc["name"]
    want = ref_noise.mixture_output(mix_cls, uf, keep, cache.setdefault(ckey, {}))
    res = {}
    for be in ("permanent", "slos"):
        acc.tick("executions"); acc.tick("transitions")
        s = emu.Sampler(c, lw.State(list(vin)), source=src, backend=be)
        d = {tuple(k.s): float(v) for k, v in s.probability_distribution.items()}
        res[be] = d
        tot = sum(d.values())
        if abs(tot - 1) > tol:
            acc.violation("output_not_normalised", {**case, "backend": be}, {"sum": tot})
            continue
        if any(v < 0 for v in d.values()):
            acc.violation("negative_probability", {**case, "backend": be}, None)
        for k in set(d) | set(want):
            if abs(d.get(k, 0.0) - want.get(k, 0.0)) > tol:
                acc.violation("output_probability", {**case, "backend": be},
                              {"state": k, "impl": d.get(k, 0.0), "ref": want.get(k, 0.0), "tol": tol})
                break
    if len(ref_cls) > 1 and n_req:
        acc.nontriv(rc["name"], vin, params)
    acc.outcome("classes=%d" % min(len(ref_cls), 20))
    # (iv) limits
    if b == 1 and pu == 1 and ind == 1:
        ideal = {tuple(k.s): float(v) for k, v in emu.Sampler(c, lw.State(list(vin))).probability_distribution.items()}
        for k in set(ideal) | set(res["permanent"]):
            if abs(ideal.get(k, 0) - res["permanent"].get(k, 0)) > 1e-12:
                acc.violation("perfect_source_not_ideal", case, {"state": k})
                break
    if b == 1 and pu == 1 and ind == 0 and not thr:
        cl = {tuple([0] * keep): 1.0}
        for m, n in enumerate(full_in):
            for _ in range(n):
                one = tuple(1 if j == m else 0 for j in range(len(full_in))) + (0,) * (uf.shape[0] - len(full_in))
                cl = ref_noise.convolve(cl, ref_fock.distribution(uf, one, keep)[0])
        for k in set(cl) | set(res["permanent"]):
            if abs(cl.get(k, 0) - res["permanent"].get(k, 0)) > tol:
                acc.violation("zero_indistinguishability_not_classical", case, {"state": k})
                break


def extras(env, acc, purities, indists):
    """g2 of the emitted photon-number statistics and HOM visibility."""
    for pu in purities:
        st = emu.Source(purity=pu)._build_statistics(lw.State([1]))
        acc.tick("executions"); acc.tick("transitions")
        pn = {}
        for s, p in st.items():
            n = s.n_photons
            pn[n] = pn.get(n, 0.0) + p
        mean = sum(n * p for n, p in pn.items())
        g2 = sum(n * (n - 1) * p for n, p in pn.items()) / mean ** 2
        if abs(g2 - (1 - pu)) > 1e-12:
            acc.violation("g2_not_one_minus_purity", {"purity": pu}, {"g2": g2})
    bs = lw.Circuit(2); bs.bs(0, reflectivity=0.5)
    for ind in indists:
        for be in ("permanent", "slos"):
            acc.tick("executions"); acc.tick("transitions")
            d = emu.Sampler(bs, lw.State([1, 1]), source=emu.Source(indistinguishability=ind),
                            backend=be).probability_distribution
            pc = float(d.get(lw.State([1, 1]), 0.0))
            vis = 1 - 2 * pc          # coincidence probability 1/2 for distinguishable photons
            if abs(vis - ind) > 1e-9:
                acc.violation("hom_visibility", {"indistinguishability": ind, "backend": be}, {"visibility": vis})


def check_refused_updates(env, acc, grid):
    """A long-lived Source: every refused assignment must leave its statistics equal to a fresh Source's."""
    bad = [("purity", 0.5), ("purity", 0.3), ("purity", 1.2), ("purity", "x"), ("brightness", -0.1),
           ("brightness", 1.5), ("indistinguishability", 2), ("indistinguishability", True),
           ("probability_threshold", -1), ("probability_threshold", 1.5)]
    st = lw.State([2, 1, 0])
    for b, pu, ind, thr in grid:
        src = emu.Source(purity=pu, brightness=b, indistinguishability=ind, probability_threshold=thr)
        for attr, val in bad:
            acc.tick("executions"); acc.tick("transitions")
            case = {"scenario": "refused_source_update", "brightness": b, "purity": pu, "indistinguishability": ind,
                    "threshold": thr, "update": [attr, val], "seed": env.seed}
            try:
                setattr(src, attr, val)
                acc.violation("invalid_source_value_accepted", case, None)
                src = emu.Source(purity=pu, brightness=b, indistinguishability=ind, probability_threshold=thr)
                continue
            except (ValueError, TypeError):
                acc.tick("rejected_calls")
            if (src.purity, src.brightness, src.indistinguishability, src.probability_threshold) != (pu, b, ind, thr):
                acc.violation("refused_update_changed_source", case, None)
            fresh = emu.Source(purity=pu, brightness=b, indistinguishability=ind, probability_threshold=thr)
            try:
                s1, s2 = src._build_statistics(st), fresh._build_statistics(st)
            except Exception:  # noqa: BLE001  (threshold removing everything etc.: outside the alphabet)
                continue
            if set(s1) != set(s2) or any(abs(s1[k] - s2[k]) > 1e-14 for k in s1):
                acc.violation("refused_update_changed_source", case, {"what": "input statistics differ from a fresh Source"})
                src = fresh
        # accepted updates: a reconfigured source equals a fresh one
        for attr, val in (("purity", 1), ("brightness", 1), ("indistinguishability", 1), ("purity", pu),
                          ("brightness", b), ("indistinguishability", ind)):
            setattr(src, attr, val)
        fresh = emu.Source(purity=pu, brightness=b, indistinguishability=ind, probability_threshold=thr)
        try:
            s1, s2 = src._build_statistics(st), fresh._build_statistics(st)
            if set(s1) != set(s2) or any(abs(s1[k] - s2[k]) > 1e-14 for k in s1):
                acc.violation("reconfigured_source_differs_from_fresh", {"scenario": "source_reconfigured", "brightness": b,
                                                                        "purity": pu, "indistinguishability": ind,
                                                                        "threshold": thr, "seed": env.seed}, None)
        except Exception:  # noqa: BLE001
            pass


def check_default_source(env, acc):
    """'Perfect settings reduce to the ideal source' also for the source a Sampler makes for itself - whatever was
    done to the self-made source of ANOTHER Sampler before (edited in place, replaced)."""
    c = lw.Circuit(2); c.bs(0)
    st = lw.State([1, 1])
    ideal = {(2, 0): 0.5, (0, 2): 0.5}
    edits = [("brightness", 0.5), ("purity", 0.8), ("indistinguishability", 0.0), ("probability_threshold", 0.2)]
    for k in range(0, 3):
        for hist in itertools.permutations(edits, k):
            case = {"scenario": "default_source_after", "edits": hist, "seed": env.seed}
            acc.tick("executions"); acc.tick("transitions", k + 1)
            first = emu.Sampler(c, st)
            for attr, val in hist:
                setattr(first.source, attr, val)
            first.probability_distribution
            second = emu.Sampler(c, st)
            d = {tuple(k_.s): float(v) for k_, v in second.probability_distribution.items()}
            src = second.source
            if (src.brightness, src.purity, src.indistinguishability, src.probability_threshold) != (1, 1, 1, 0) \
                    or set(d) != set(ideal) or any(abs(d[o] - ideal[o]) > 1e-12 for o in ideal):
                acc.violation("default_source_not_ideal", case, {"distribution": d, "source": [src.brightness, src.purity,
                                                                                                src.indistinguishability]})
            acc.state("default_source", hist)
            if k:
                acc.nontriv("default_source", hist)


def run(tier, seed):
    env = Env(seed)
    gb = kernel.generic_reals(seed + 7, 2, 0.0, 1.0)
    gp = kernel.generic_reals(seed + 8, 2, 0.5, 1.0)
    gi = kernel.generic_reals(seed + 9, 2, 0.0, 1.0)
    if tier == "quick":
        B, P, I, T = [0, gb[0], gb[1], 1], [gp[0], gp[1], 1], [0, gi[0], gi[1], 1], [0, 0.01]
        maxreq = 3
    else:
        gb += kernel.generic_reals(seed + 1007, 2, 0.0, 1.0)
        gp += kernel.generic_reals(seed + 1008, 1, 0.5, 1.0)
        gi += kernel.generic_reals(seed + 1009, 2, 0.0, 1.0)
        B, P, I, T = [0, *gb, 1], [*gp, 1], [0, *gi, 1], [0, 0.01, 0.1]
        maxreq = 4
    grid = list(itertools.product(B, P, I, T))
    jobs = []
    for rc in circuits(env):
        hp = sum(op[1] for op in rc["ops"] if op[0] == "her")
        for vin in rc["inputs"]:
            if sum(vin) + hp > maxreq:
                continue
            for params in grid:
                # 3+ requested photons with all three imperfections at once: generic point only (quick)
                jobs.append((rc, vin, params))

    # a mode holding three photons followed by another occupied mode (labels of distinguishable photons must stay
    # distinct across modes): 4 requested photons, small grid
    rc3 = next(rc for rc in circuits(env) if rc["n"] == 3 and not any(op[0] in ("her", "loss") for op in rc["ops"]))
    for vin in ((3, 1, 0), (3, 0, 1)):
        for params in ((1, 1, 0, 0), (1, 1, gi[0], 0), (gb[0], gp[0], gi[1], 0)):
            jobs.append((rc3, vin, params))

    # thresholds exactly equal to an input probability (dyadic settings, so the probabilities are exact): "below the
    # threshold" keeps the equal ones
    dyadic = [(0.5, 1, 1, 0.25), (0.5, 1, 1, 0.5), (0.25, 1, 1, 0.25), (0.25, 1, 1, 0.75), (0.25, 1, 1, 0.1875),
              (0.5, 1, 0, 0.25), (0.5, 1, 0.5, 0.125), (0.75, 1, 1, 0.5625), (0.5, 0.75, 1, 0.25), (0.5, 0.75, 1, 0.125)]
    for rc in circuits(env):
        hp = sum(op[1] for op in rc["ops"] if op[0] == "her")
        for vin in rc["inputs"]:
            if 1 <= sum(vin) + hp <= 2:
                jobs += [(rc, vin, params) for params in dyadic]

    def shard_fn(js):
        acc = kernel.Acc()
        cache = {}
        for rc, vin, params in js:
            check_config(rc, vin, params, env, acc, cache)
            acc.state(rc["name"], vin)
        if js:
            rc, vin, params = js[0]
            acc.sample({"circuit": rc["name"], "input": vin, "brightness,purity,indist,threshold": params}, limit=1)
        return acc

    acc = kernel.pmap(shard_fn, kernel.interleave(jobs, kernel.NPROC * 4))
    extras(env, acc, P + [0.6, 0.75, 0.999], I + [0.25, 0.5])
    ru = kernel.Acc(); check_refused_updates(env, ru, [g for g in grid if g[3] == 0]); check_default_source(env, ru)
    acc.merge(ru)
    meta = {
        "rule": "grid brightness x purity x indistinguishability x threshold (both boundaries + seed-chosen generic "
                "points, more grid points than the polynomial degree for <=3 photons) x inputs (bunched, gaps, vacuum, "
                "with a herald photon) x 5 circuits (lossless, lossy, heralded) x 2 backends. Oracle: class "
                "probabilities and end-to-end output distribution from a generative RefSource (independent per-photon "
                "outcomes; convolution of RefFock distributions per distinguishability group); thresholding rule; "
                "ideal/classical limits; g2; HOM visibility. distinct_nontrivial = configurations with >=1 requested "
                "photon and > 1 physical input class.",
        "exhaustive": True,
        "bounds": {"grid": {"brightness": B, "purity": P, "indistinguishability": I, "threshold": T},
                   "configurations": len(jobs), "max_requested_photons": maxreq},
        "assumptions": ["finite grid stands for the continuous parameter ranges (polynomial identity argument)"],
    }
    return acc, meta


def replay(w, acc):
    case = w["case"]
    env = Env(case.get("seed", 0))
    if case.get("scenario") == "default_source_after":
        check_default_source(env, acc)
        return
    if str(case.get("scenario", "")).startswith(("refused", "source_")):
        check_refused_updates(env, acc, [(case["brightness"], case["purity"], case["indistinguishability"], case["threshold"])])
        return
    if "recipe" not in case:
        extras(env, acc, [case.get("purity", 0.9)], [case.get("indistinguishability", 0.5)])
        return
    rc = {"name": case["recipe"], "n": case["n"], "ops": case["ops"]}
    check_config(rc, tuple(case["input"]),
                 (case["brightness"], case["purity"], case["indistinguishability"], case["threshold"]), env, acc, {})
