"""C14 — Reck mapping reproduces any unitary; noise enters only through the error
model (E1 over a structured unitary alphabet x error-model configurations; E3 for
the bounded-resampling loop)."""
from __future__ import annotations

import itertools
import math

import numpy as np

import lightworks as lw
from lightworks import interferometers as itf
from lightworks.interferometers import dists

from .. import kernel
from ..circuit_ops import Env, spec_struct

TWO_PI = 2 * math.pi


# ---------------------------------------------------------------------------
# unitary alphabet
# ---------------------------------------------------------------------------
def phased_permutations(n, phases):
    for perm in itertools.permutations(range(n)):
        for ph in itertools.product(phases, repeat=n):
            u = np.zeros((n, n), dtype=complex)
            for i, j in enumerate(perm):
                u[j, i] = ph[i]
            yield ("pperm", n, perm, tuple(str(p) for p in ph)), u


def givens(n, a, b, th, ph=0.0):
    g = np.eye(n, dtype=complex)
    g[a, a] = math.cos(th); g[b, b] = math.cos(th)
    g[a, b] = -math.sin(th) * np.exp(-1j * ph); g[b, a] = math.sin(th) * np.exp(1j * ph)
    return g


def structured(env, tier):
    H2 = np.array([[1, 1], [1, -1]], dtype=complex) / math.sqrt(2)
    out = []
    for n in (2, 3, 4, 5):
        out.append((("identity", n), np.eye(n, dtype=complex)))
        out.append((("-identity", n), -np.eye(n, dtype=complex)))
        out.append((("i*identity", n), 1j * np.eye(n, dtype=complex)))
        out.append((("antidiag", n), np.fliplr(np.eye(n)).astype(complex)))
        dft = np.array([[np.exp(2j * math.pi * a * b / n) for b in range(n)] for a in range(n)]) / math.sqrt(n)
        out.append((("dft", n), dft))
        out.append((("haar", n), kernel.haar(n, env.seed + 40 + n)))
        out.append((("haar_real", n), np.linalg.qr(np.random.default_rng(env.seed + n).normal(size=(n, n)))[0].astype(complex)))
    e3 = np.eye(3, dtype=complex)
    b = e3.copy(); b[:2, :2] = H2; out.append((("H+1",), b))
    b = e3.copy(); b[1:, 1:] = H2; out.append((("1+H",), b))
    out.append((("HxH",), np.kron(H2, H2)))
    b = np.eye(4, dtype=complex); b[1:3, 1:3] = H2; out.append((("1+H+1",), b))
    out.append((("givens01*givens23",), givens(4, 0, 1, 0.7, 0.3) @ givens(4, 2, 3, 1.1, -0.4)))
    out.append((("givens02",), givens(3, 0, 2, 0.9, 1.3)))
    out.append((("givens13*givens02",), givens(4, 1, 3, 0.5) @ givens(4, 0, 2, 2.2, 0.8)))
    out.append((("givens_pi/2",), givens(3, 0, 1, math.pi / 2)))
    eps_list = [1e-21, 1e-18, 1e-15, 1e-12, 1e-9, 1e-6] if tier == "quick" else \
        [10.0 ** -k for k in range(3, 24)]
    for eps in eps_list:
        out.append((("near_identity", eps), givens(3, 0, 2, eps, 0.4) @ givens(3, 1, 2, eps)))
        out.append((("near_swap", eps), givens(3, 0, 1, math.pi / 2 - eps, 0.2)))
        out.append((("near_zero_entry", eps), givens(4, 1, 2, eps, 1.0) @ np.kron(H2, H2)))
    return out


# ---------------------------------------------------------------------------
def analyse_mapped(mapped):
    """Returns (ok_structure: str|None, phases, reflectivities, losses)."""
    phases, refl, losses = [], [], []
    for s in mapped._get_circuit_spec():
        nm = type(s).__name__
        if nm == "PhaseShifter":
            phases.append(s.phi)
        elif nm == "BeamSplitter":
            if abs(s.mode_1 - s.mode_2) != 1:
                return "non-adjacent beam splitter", phases, refl, losses
            refl.append(s.reflectivity)
        elif nm == "Loss":
            losses.append(s.loss)
        elif nm == "Barrier":
            pass
        else:
            return "unexpected component " + nm, phases, refl, losses
    return None, phases, refl, losses


def composite_circuits(env):
    """Lossless circuits that are not a bare Unitary: heralds arriving through added sub-circuits
    (one and two levels deep), groups, swaps, together with heralds placed directly."""
    def hsub(k, heralds):
        s = lw.Unitary(kernel.haar(k, env.seed + 300 + k + len(heralds)))
        for h in heralds:
            s.herald(*h)
        return s

    def one_level():
        c = lw.Circuit(3); c.bs(0, reflectivity=env.R[1]); c.add(hsub(3, [(1, 1, 1)]), 1); c.ps(2, env.PH[0]); c.bs(1, 2)
        return c

    def two_subs_and_direct():
        c = lw.Circuit(5); c.bs(0, 2, reflectivity=env.R2); c.add(hsub(3, [(1, 0, 2)]), 0)
        c.add(hsub(4, [(0, 3, 0), (2, 1, 2)]), 2); c.mode_swaps({0: 4, 4: 0}); c.herald(1, 4, 1)
        return c

    def nested():
        mid = lw.Circuit(3); mid.add(hsub(3, [(1, 1, 1)]), 1); mid.bs(0, 2, reflectivity=env.R[1]); mid.herald(0, 2, 0)
        c = lw.Circuit(4); c.add(mid, 1); c.bs(0); c.add(mid, 0, group=True); c.ps(3, env.PH[1])
        return c

    def grouped_plain():
        g = lw.Circuit(2); g.bs(0, reflectivity=env.R[1]); g.ps(1, env.PH[2])
        c = lw.Circuit(3); c.add(g, 1, group=True); c.bs(0, convention="H"); c.herald(1, 0, 2)
        return c

    def sub_only():
        c = lw.Circuit(2); c.add(hsub(4, [(1, 0, 3), (0, 2, 1)]), 0)
        return c

    def unitary_plus():       # a Unitary object that was built on afterwards
        c = lw.Unitary(kernel.haar(3, env.seed + 350)); c.bs(0, reflectivity=env.R[1]); c.ps(2, env.PH[1]); c.bs(1, 2)
        c.herald(0, 2, 0)
        return c

    def zero_loss_elements():  # lossless, yet it holds loss elements (value 0, plain and as a Parameter): U_full is larger than U
        c = lw.Unitary(kernel.haar(3, env.seed + 360)); c.loss(1, 0); c.bs(0, reflectivity=env.R2, loss=lw.Parameter(0.0))
        c.ps(2, env.PH[0]); c.herald(1, 2, 0)
        return c

    return [("zero_loss_elements", zero_loss_elements), ("unitary_plus", unitary_plus), ("one_level", one_level), ("two_subs_and_direct", two_subs_and_direct), ("nested", nested),
            ("grouped_plain", grouped_plain), ("sub_only", sub_only)]


def check_default(label, u, heralds, env, acc):
    case = {"unitary": label, "heralds": heralds, "seed": env.seed}
    if u is None:
        c = dict(composite_circuits(env))[label[1]]()
        u = c.U              # n x n; U_full is larger when the circuit holds (zero-valued) loss elements
    else:
        c = lw.Unitary(u.copy())
        for h in heralds:
            c.herald(*h)
    n = u.shape[0]
    acc.tick("executions"); acc.tick("transitions")
    try:
        m = itf.Reck().map(c)
    except Exception as e:  # noqa: BLE001
        acc.violation("mapping_fails", case, {"error": repr(e)})
        return
    bad, phases, refl, losses = analyse_mapped(m)
    if bad:
        acc.violation("mapped_circuit_structure", case, {"what": bad})
        return
    err = float(np.abs(m.U - c.U).max()) if m.U.shape == c.U.shape else None
    if err is None or err > 1e-8:
        acc.violation("mapped_unitary_differs", case, {"max_err": err})
    if m.heralds != c.heralds:
        acc.violation("heralds_differ", case, {"mapped": m.heralds, "original": c.heralds})
    if m.input_modes != c.input_modes:
        acc.violation("visible_mode_count_differs", case, {"mapped": m.input_modes, "original": c.input_modes})
    out_of_range = [p for p in phases if not (0 <= p < TWO_PI)]
    if out_of_range:
        acc.violation("phase_outside_[0,2pi)", case, {"phases": out_of_range[:3], "count": len(out_of_range)})
    if any(r != 0.5 for r in refl) or losses:
        acc.violation("default_error_model_not_ideal", case, {"refl": refl[:3], "losses": losses[:3]})
    if m.U_full.shape != (n, n):
        acc.violation("default_mapping_has_loss_modes", case, None)
    acc.state(label, tuple(heralds))
    if np.count_nonzero(np.abs(u) < 1e-12):
        acc.nontriv(label, tuple(heralds))
    acc.outcome("n=%d:zeros=%s" % (n, bool(np.count_nonzero(np.abs(u) < 1e-12))))


# ---------------------------------------------------------------------------
# error models
# ---------------------------------------------------------------------------
def dist_options(kind, env):
    if kind == "bs":
        return [("const", lambda: dists.Constant(0.47), (0.47, 0.47)),
                ("tophat", lambda: dists.TopHat(0.42, 0.55), (0.42, 0.55)),
                ("gauss", lambda: dists.Gaussian(0.5, 0.03, min_value=0.46, max_value=0.53), (0.46, 0.53)),
                ("gauss_tight", lambda: dists.Gaussian(0.5, 0.2, min_value=0.49, max_value=0.51), (0.49, 0.51)),
                ("gauss_max_only", lambda: dists.Gaussian(0.9, 0.05, max_value=0.92), (-math.inf, 0.92))]
    if kind == "loss":
        return [("const", lambda: dists.Constant(0.05), (0.05, 0.05)),
                ("const0", lambda: dists.Constant(0), (0, 0)),
                ("tophat", lambda: dists.TopHat(0.0, 0.2), (0.0, 0.2)),
                ("gauss", lambda: dists.Gaussian(0.1, 0.1, min_value=0, max_value=0.3), (0, 0.3)),
                ("gauss_min_only", lambda: dists.Gaussian(0.02, 0.05, min_value=0), (0, math.inf))]
    return [("const", lambda: dists.Constant(0.02), (0.02, 0.02)),
            ("tophat", lambda: dists.TopHat(-0.1, 0.1), (-0.1, 0.1)),
            ("gauss", lambda: dists.Gaussian(0, 0.05, min_value=-0.08, max_value=0.12), (-0.08, 0.12)),
            ("gauss_max_only_positional", lambda: dists.Gaussian(0, 0.05, None, 0.03), (-math.inf, 0.03))]


def check_error_model(label, u, heralds, cfg, env, acc):
    (bn, bf, bb), (ln, lf, lb), (pn, pf, pb) = cfg
    case = {"unitary": label, "heralds": heralds, "error_model": [bn, ln, pn], "seed": env.seed}
    c = lw.Unitary(u.copy())
    for h in heralds:
        c.herald(*h)
    ideal = itf.Reck().map(c)
    _, iphases, _, _ = analyse_mapped(ideal)
    specs = {}
    for sd in (0, 1, 2):
        em = itf.ErrorModel()
        em.bs_reflectivity, em.loss, em.phase_offset = bf(), lf(), pf()
        r = itf.Reck(em)
        acc.tick("executions", 2); acc.tick("transitions", 2)
        try:
            m1, m2 = r.map(c, seed=sd), r.map(c, seed=sd)
        except Exception as e:  # noqa: BLE001
            acc.violation("mapping_fails", {**case, "map_seed": sd}, {"error": repr(e)})
            return
        s1, s2 = spec_struct(m1._get_circuit_spec()), spec_struct(m2._get_circuit_spec())
        if s1 != s2:
            acc.violation("same_seed_different_circuit", {**case, "map_seed": sd}, None)
        specs[sd] = s1
        bad, phases, refl, losses = analyse_mapped(m1)
        if bad:
            acc.violation("mapped_circuit_structure", {**case, "map_seed": sd}, {"what": bad})
            return
        if any(not (bb[0] - 1e-15 <= x <= bb[1] + 1e-15) for x in refl):
            acc.violation("reflectivity_outside_declared_bounds", {**case, "map_seed": sd},
                          {"values": [x for x in refl if not bb[0] <= x <= bb[1]][:3], "bounds": bb})
        if any(not (lb[0] - 1e-15 <= x <= lb[1] + 1e-15) for x in losses):
            acc.violation("loss_outside_declared_bounds", {**case, "map_seed": sd},
                          {"values": [x for x in losses if not lb[0] <= x <= lb[1]][:3], "bounds": lb})
        if len(phases) == len(iphases):
            for p, q in zip(phases, iphases):
                d = (p - q + math.pi) % TWO_PI - math.pi
                if not (pb[0] - 1e-9 <= d <= pb[1] + 1e-9):
                    acc.violation("phase_offset_outside_declared_bounds", {**case, "map_seed": sd},
                                  {"offset": d, "bounds": pb})
                    break
        else:
            acc.violation("mapped_circuit_structure", {**case, "map_seed": sd}, {"what": "phase count"})
        if any(not (0 <= p < TWO_PI) for p in phases):
            acc.violation("phase_outside_[0,2pi)", {**case, "map_seed": sd}, None)
        uf = m1.U_full
        if not np.allclose(uf.conj().T @ uf, np.eye(uf.shape[0]), atol=1e-9):
            acc.violation("mapped_U_full_not_unitary", {**case, "map_seed": sd}, None)
        sv = np.linalg.svd(m1.U, compute_uv=False)
        if sv.max() > 1 + 1e-9:
            acc.violation("mapped_U_not_sub_unitary", {**case, "map_seed": sd}, {"max_singular_value": float(sv.max())})
        if m1.heralds != c.heralds:
            acc.violation("heralds_differ", {**case, "map_seed": sd}, None)
    random_slots = sum(1 for nme in (bn, ln, pn) if not nme.startswith("const"))
    if random_slots and len({specs[0], specs[1], specs[2]}) == 1:
        acc.tick("different_seeds_identical_circuit")       # non-vacuity indicator
    acc.state(label, bn, ln, pn)
    if random_slots:
        acc.nontriv(label, bn, ln, pn)
    acc.outcome("em:%d_random_slots" % random_slots)


# ---------------------------------------------------------------------------
# E3: the bounded Gaussian resampling loop and TopHat at the ends of its range
# ---------------------------------------------------------------------------
class ScriptedNormal:
    def __init__(self, answers):
        self.answers = list(answers)
        self.calls = 0

    def normal(self, c, d):
        if self.calls >= len(self.answers):
            raise Livelock()
        v = self.answers[self.calls]
        self.calls += 1
        return v


class Livelock(Exception):
    pass


def check_resampling(env, acc):
    lo, hi, centre = 0.1, 0.3, 0.2
    inside = [lo, centre, hi]
    outside = [lo - 1e-12, hi + 1e-12, -5.0, 7.0]
    for k in range(0, 4):                               # k out-of-range answers (the deviations)
        for outs in itertools.product(outside, repeat=k):
            for good in inside:
                g = dists.Gaussian(centre, 0.5, min_value=lo, max_value=hi)
                sc = ScriptedNormal(list(outs) + [good, 99.0])
                g._rng = sc
                acc.tick("executions"); acc.tick("transitions", k + 1); acc.tick("paths")
                case = {"scenario": "gaussian_resampling", "answers": list(outs) + [good], "seed": env.seed}
                try:
                    v = g.value()
                except Livelock:
                    acc.violation("resampling_loop_does_not_terminate", case, None)
                    continue
                if v != good or sc.calls != k + 1:
                    acc.violation("resampling_returns_wrong_draw", case, {"returned": v, "draws": sc.calls})
                if not (lo <= v <= hi):
                    acc.violation("drawn_value_outside_declared_bounds", case, {"value": v})
                acc.nontriv("resample", outs, good)
    class R:
        def __init__(self, x): self.x = x
        def random(self): return self.x
    for lo, hi in ((0.2, 0.6), (-0.3, 0.1), (0.5, 0.5)):
        for x in (0.0, 0.5, np.nextafter(1.0, 0.0)):
            t = dists.TopHat(lo, hi)
            t._rng = R(x)
            acc.tick("executions"); acc.tick("transitions")
            v = t.value()
            if not (lo <= v <= hi):
                acc.violation("drawn_value_outside_declared_bounds",
                              {"scenario": "tophat", "bounds": [lo, hi], "uniform": x, "seed": env.seed}, {"value": v})
    for args in ((0.3, 0.1), ):
        try:
            dists.TopHat(*args)
            acc.violation("inverted_bounds_accepted", {"scenario": "tophat_ctor", "seed": env.seed}, None)
        except ValueError:
            acc.tick("rejected_calls")
        try:
            dists.Gaussian(0, 1, min_value=args[0], max_value=args[1])
            acc.violation("inverted_bounds_accepted", {"scenario": "gaussian_ctor", "seed": env.seed}, None)
        except ValueError:
            acc.tick("rejected_calls")


def check_history(env, acc):
    """Long-lived Reck / ErrorModel objects: (a) configuring one default-constructed Reck in place must not
    leak into later Reck() objects; (b) BFS over {assign a distribution to a slot, map with a seed}: after every
    history the mapping equals the one of a freshly built error model with the same distributions and seed."""
    u = kernel.haar(3, env.seed + 43)
    c = lw.Unitary(u.copy())
    r0 = itf.Reck()
    r0.error_model.loss = dists.Constant(0.3)
    r0.error_model.bs_reflectivity = dists.Constant(0.4)
    r0.error_model.phase_offset = dists.Constant(0.1)
    r0.map(c)
    acc.tick("executions"); acc.tick("transitions")
    m = itf.Reck().map(c)
    if m.U_full.shape != (3, 3) or np.abs(m.U - u).max() > 1e-8:
        acc.violation("default_error_model_depends_on_history", {"scenario": "history_default", "seed": env.seed},
                      {"max_err": float(np.abs(m.U[:3, :3] - u).max())})
    if itf.ErrorModel().get_loss() != 0 or itf.ErrorModel().get_bs_reflectivity() != 0.5:
        acc.violation("default_error_model_depends_on_history", {"scenario": "history_default_model", "seed": env.seed}, None)
    opts = {"bs": dist_options("bs", env)[:3], "loss": [dist_options("loss", env)[i] for i in (0, 2, 3)],
            "ph": dist_options("ph", env)}
    alpha = [("set", slot, i) for slot in ("bs", "loss", "ph") for i in range(3)] + [("map", 0), ("map", 1)]
    attr = {"bs": "bs_reflectivity", "loss": "loss", "ph": "phase_offset"}

    def replay_hist(hist):
        em = itf.ErrorModel()
        r = itf.Reck(em)
        cfg = {"bs": None, "loss": None, "ph": None}
        for op in hist:
            if op[0] == "set":
                setattr(em, attr[op[1]], opts[op[1]][op[2]][1]())
                cfg[op[1]] = op[2]
            else:
                r.map(c, seed=op[1])
        return r, cfg

    def fresh(cfg):
        em = itf.ErrorModel()
        for slot, i in cfg.items():
            if i is not None:
                setattr(em, attr[slot], opts[slot][i][1]())
        return itf.Reck(em)

    depth = 3
    for d in range(1, depth + 1):
        for hist in itertools.product(alpha, repeat=d):
            if hist[-1][0] != "set" and d > 1 and all(h[0] == "map" for h in hist):
                continue
            try:
                r, cfg = replay_hist(hist)
            except Exception as e:  # noqa: BLE001
                acc.violation("mapping_fails", {"scenario": "history_error_model", "history": hist, "seed": env.seed},
                              {"error": repr(e)})
                continue
            for sd in (0, 5):
                acc.tick("executions", 2); acc.tick("transitions")
                try:
                    a = spec_struct(r.map(c, seed=sd)._get_circuit_spec())
                    b = spec_struct(fresh(cfg).map(c, seed=sd)._get_circuit_spec())
                except Exception as e:  # noqa: BLE001
                    acc.violation("mapping_fails", {"scenario": "history_error_model", "history": hist, "map_seed": sd,
                                                    "seed": env.seed}, {"error": repr(e)})
                    break
                if a != b:
                    acc.violation("mapping_depends_on_error_model_history",
                                  {"scenario": "history_error_model", "history": hist, "map_seed": sd, "seed": env.seed}, None)
                    break
            acc.state("emhist", tuple(sorted(cfg.items())), hist[-1])
            if any(h[0] == "map" for h in hist[:-1]):
                acc.nontriv("emhist", hist)


def check_equal_configurations(env, acc):
    """Slots of one error model configured alike: from separate distribution objects with the same parameters, or from
    one shared object.  Same seed -> same circuit, different slots still draw independently seeded streams, and a model
    that was used before maps like a freshly built one."""
    makers = {
        "tophat": lambda: dists.TopHat(0.4, 0.6),
        "gauss": lambda: dists.Gaussian(0.5, 0.05, min_value=0, max_value=1),
        "tophat_small": lambda: dists.TopHat(0.0, 0.1),
        "const": lambda: dists.Constant(0.25),
    }
    attr = ("bs_reflectivity", "loss", "phase_offset")
    for un in (3, 4):
        c = lw.Unitary(kernel.haar(un, env.seed + 71 + un))
        for name, mk in makers.items():
            for slots in ((0, 1), (1, 2), (0, 2), (0, 1, 2)):
                for shared in (False, True):
                    case = {"scenario": "equal_configurations", "dist": name, "slots": slots, "shared_object": shared,
                            "n": un, "seed": env.seed}

                    def build():
                        em = itf.ErrorModel()
                        one = mk()
                        for k in slots:
                            setattr(em, attr[k], one if shared else mk())
                        return itf.Reck(em)

                    r = build()
                    got = {}
                    try:
                        for sd in (3, 5, 3, 0, 0):
                            acc.tick("executions"); acc.tick("transitions")
                            sp = spec_struct(r.map(c, seed=sd)._get_circuit_spec())
                            if sd in got and got[sd] != sp:
                                acc.violation("same_seed_different_circuit", {**case, "map_seed": sd}, None)
                            got[sd] = sp
                        for sd in (3, 0):
                            acc.tick("executions"); acc.tick("transitions")
                            if spec_struct(build().map(c, seed=sd)._get_circuit_spec()) != got[sd]:
                                acc.violation("mapping_depends_on_history", {**case, "map_seed": sd}, None)
                    except Exception as e:  # noqa: BLE001
                        acc.violation("mapping_fails", case, {"error": repr(e)})
                        continue
                    if name != "const" and got[3] == got[5]:
                        acc.violation("different_seeds_identical_circuit", case, None)
                    acc.state("eqcfg", name, slots, shared, un)
                    acc.nontriv("eqcfg", name, slots, shared, un)


def check_circuit_history(env, acc):
    """One long-lived Reck object mapping a circuit that is changed in place between calls (parameter updates,
    appended components, another circuit mapped in between): every mapping reproduces the circuit as it is now."""
    alpha = [("pset", env.PH[1]), ("pset", env.PH[2]), ("append",), ("map",), ("map_other",)]
    other = lw.Unitary(kernel.haar(3, env.seed + 61))
    for d in range(0, 4):
        for hist in itertools.product(alpha, repeat=d):
            par = lw.Parameter(env.PH[0])
            cc = lw.Circuit(3)
            cc.bs(0, reflectivity=env.R[1]); cc.ps(1, par); cc.bs(1, reflectivity=env.R2, convention="H"); cc.herald(0, 2)
            r = itf.Reck()
            case = {"scenario": "history_circuit", "history": hist, "seed": env.seed}
            acc.tick("executions"); acc.tick("transitions", len(hist) + 1)
            try:
                for op in hist:
                    if op[0] == "pset":
                        par.set(op[1])
                    elif op[0] == "append":
                        cc.bs(0, reflectivity=0.3); cc.ps(0, 0.9)
                    elif op[0] == "map":
                        r.map(cc)
                    else:
                        r.map(other)
                m = r.map(cc)
            except Exception as e:  # noqa: BLE001
                acc.violation("mapping_fails", case, {"error": repr(e)})
                continue
            err = float(np.abs(m.U - cc.U).max())
            if err > 1e-8 or m.heralds != cc.heralds:
                acc.violation("mapped_unitary_differs", case, {"max_err": err})
            acc.state("circhist", hist)
            if any(h[0] in ("map", "map_other") for h in hist):
                acc.nontriv("circhist", hist)


CHILD = """
import hashlib, sys
import numpy as np
import lightworks as lw
from lightworks import interferometers as itf
from lightworks.interferometers import dists
from mc import kernel
seed = int(sys.argv[1])
em = itf.ErrorModel()
em.bs_reflectivity = dists.Gaussian(0.5, 0.03, min_value=0.46, max_value=0.53)
em.loss = dists.TopHat(0.0, 0.2)
em.phase_offset = dists.Gaussian(0, 0.05)
c = lw.Unitary(kernel.haar(3, seed + 43)); c.herald(1, 0, 2)
out = []
for sd in (0, 5, 2 ** 31 + 7):
    m = itf.Reck(em).map(c, seed=sd)
    out.append(hashlib.sha256(np.round(m.U_full, 12).tobytes()).hexdigest()[:16])
print("FP", *out)
"""


def check_cross_process(env, acc):
    """'The same seed gives the same mapped circuit' also between interpreter sessions: the mapping is computed in
    child processes that differ only in PYTHONHASHSEED and must come out identical."""
    import os
    import subprocess
    import sys
    fps = {}
    procs = {}
    for hs in ("1", "2", "12345"):
        acc.tick("executions", 3); acc.tick("transitions")
        e = dict(os.environ, PYTHONHASHSEED=hs)
        procs[hs] = subprocess.Popen([sys.executable, "-W", "ignore", "-c", CHILD, str(env.seed)], stdout=subprocess.PIPE,
                                     stderr=subprocess.PIPE, text=True, env=e)
    for hs, pr in procs.items():
        out, err = pr.communicate()
        line = [l for l in out.splitlines() if l.startswith("FP ")]
        if pr.returncode != 0 or not line:
            acc.violation("mapping_fails", {"scenario": "cross_process", "hash_seed": hs, "seed": env.seed},
                          {"stderr": err[-400:]})
            return
        fps[hs] = line[0]
    if len(set(fps.values())) != 1:
        acc.violation("seeded_mapping_differs_between_sessions", {"scenario": "cross_process", "seed": env.seed}, fps)
    acc.state("cross_process")
    acc.nontriv("cross_process")


def herald_layouts(n):
    lay = [()]
    if n >= 2:
        lay += [((0, 0, 0),), ((1, n - 1, n - 1),), ((1, 0, n - 1),)]
        lay += [((1, 0, n - 1), (0, n - 1, 0))]               # output modes are the input modes, exchanged
    if n >= 3:
        lay += [((1, n - 1, 0), (0, 0, 1))]
        lay += [((1, 0, 1), (0, 1, 2), (2, 2, 0))]            # a 3-cycle with three different photon numbers
        lay += [((0, 2, 2), (1, 0, 0), (2, 1, 1))]            # same modes, declared out of order
    return lay


def run(tier, seed):
    env = Env(seed)
    jobs = []
    phases = [1, -1, 1j]
    for n in (2, 3):
        for label, u in phased_permutations(n, phases):
            jobs.append(("default", label, u, ()))
    p4 = list(phased_permutations(4, phases if tier == "thorough" else [1, -1]))
    if tier == "quick":
        p4 += [x for i, x in enumerate(phased_permutations(4, [1j, -1j, 1])) if i % 7 == 0]
    for label, u in p4:
        jobs.append(("default", label, u, ()))
    if tier == "thorough":
        for label, u in phased_permutations(5, [1, -1]):
            jobs.append(("default", label, u, ()))
    st = structured(env, tier)
    for label, u in st:
        for lay in herald_layouts(u.shape[0]):
            jobs.append(("default", label, u, lay))
    for nm, _ in composite_circuits(env):
        jobs.append(("default", ("composite", nm), None, ()))
    # error models on a few circuits incl. in != out heralds
    em_circs = [(("haar", 3), kernel.haar(3, env.seed + 43), ()), (("haar", 4), kernel.haar(4, env.seed + 44), ((1, 0, 3),)),
                (("perm", 3), np.array([[0, 1, 0], [0, 0, 1], [1, 0, 0]], dtype=complex), ((0, 1, 1),)),
                (("identity", 2), np.eye(2, dtype=complex), ())]
    for cfg in itertools.product(dist_options("bs", env), dist_options("loss", env), dist_options("ph", env)):
        for label, u, lay in em_circs:
            jobs.append(("em", label, u, lay, cfg))

    def shard_fn(js):
        acc = kernel.Acc()
        for j in js:
            if j[0] == "default":
                check_default(j[1], j[2], j[3], env, acc)
            else:
                check_error_model(j[1], j[2], j[3], j[4], env, acc)
        if js and js[0][0] == "default":
            acc.sample({"unitary": js[0][1], "heralds": js[0][3]}, limit=1)
        return acc

    # closures with lambdas cannot cross process boundaries, forked workers inherit them
    acc = kernel.pmap(shard_fn, kernel.interleave(jobs, kernel.NPROC * 2))
    e3 = kernel.Acc()
    check_resampling(env, e3)
    check_history(env, e3)
    check_circuit_history(env, e3)
    check_equal_configurations(env, e3)
    check_cross_process(env, e3)
    acc.merge(e3)
    meta = {
        "rule": "default error model: every phased permutation matrix with phases in {1,-1,i} for n<=3 (and n=4: all "
                "in thorough, {1,-1} plus a slice in quick), identity/-identity/i*identity/antidiagonal/DFT/Haar/real "
                "orthogonal for n<=5, block matrices H+1, 1+H, HxH, Givens products with exact zeros, three "
                "near-degenerate families with eps from 1e-3 down to 1e-23, each with herald layouts incl. in!=out; 5 "
                "composite circuits whose heralds come from added sub-circuits (one and two levels, grouped, with direct heralds); "
                "oracle: same U (1e-8), only adjacent bs/ps/barriers, phases in [0,2pi), heralds and visible modes equal, no loss. "
                "Error models: every combination of 5x5x4 distribution choices (incl. one-sided Gaussian bounds) x 4 circuits x map seeds {0,1,2} twice "
                "each: declared bounds, reproducibility, phases, U_full unitary, U sub-unitary. E3: every scripted "
                "answer sequence of the Gaussian resampling loop with <=3 out-of-range answers (4 kinds) followed by "
                "each in-range answer (min, centre, max); TopHat at uniform 0, 0.5, 1-ulp. distinct_nontrivial = "
                "unitaries with exact zero entries / error models with a random slot / resampling sequences.",
        "exhaustive": True,
        "bounds": {"default_mappings": sum(1 for j in jobs if j[0] == "default"),
                   "error_model_configurations": sum(1 for j in jobs if j[0] == "em")},
        "assumptions": ["'all seeds' is represented by map seeds {0,1,2}", "numpy SVD / linear algebra"],
    }
    return acc, meta


def replay(w, acc):
    case = w["case"]
    env = Env(case.get("seed", 0))
    if "scenario" in case:
        if case["scenario"] == "cross_process":
            check_cross_process(env, acc)
        elif case["scenario"] == "equal_configurations":
            check_equal_configurations(env, acc)
        elif case["scenario"] == "history_circuit":
            check_circuit_history(env, acc)
        elif str(case["scenario"]).startswith("history"):
            check_history(env, acc)
        else:
            check_resampling(env, acc)
        return
    label = case["unitary"]
    lab = tuple(tuple(x) if isinstance(x, list) else x for x in label)
    if lab and lab[0] == "composite":
        check_default(lab, None, (), env, acc)
        return
    pool = list(structured(env, "thorough"))
    for n in (2, 3, 4):
        pool += list(phased_permutations(n, [1, -1, 1j, -1j]))
    pool += [(("perm", 3), np.array([[0, 1, 0], [0, 0, 1], [1, 0, 0]], dtype=complex))]
    for l2, u in pool:
        if kernel.jsonable(l2) == kernel.jsonable(lab):
            lay = tuple(tuple(h) for h in case.get("heralds", []))
            if "error_model" in case:
                names = case["error_model"]
                cfg = tuple(next(o for o in dist_options(k, env) if o[0] == nm)
                            for k, nm in zip(("bs", "loss", "ph"), names))
                check_error_model(l2, u, lay, cfg, env, acc)
            else:
                check_default(l2, u, lay, env, acc)
            return
