"""C18 — State / AnnotatedState algebra and round-trips (exhaustive enumeration
of small values)."""
from __future__ import annotations

import itertools
import math

import numpy as np

import lightworks as lw
from lightworks.emulator.state import AnnotatedState
from lightworks.emulator.utils import AnnotatedStateError
from lightworks.sdk.utils import add_heralds_to_state, remove_heralds_from_state

from .. import kernel
from ..circuit_ops import Env

SLICE_VALS = [None, -2, -1, 0, 1, 2, 3]


def check_states(env, acc, maxlen):
    occ = [list(t) for L in range(0, maxlen + 1) for t in itertools.product([0, 1, 2], repeat=L)]
    S = [lw.State(list(o)) for o in occ]
    for s, o in zip(S, occ):
        case = {"state": o, "seed": env.seed}
        acc.tick("executions"); acc.tick("transitions")
        acc.state("S", tuple(o))
        if s.n_photons != sum(o) or s.n_modes != len(o) or len(s) != len(o) or list(s) != o or s.s != o:
            acc.violation("counts_inconsistent", case, None)
        x = s.s; x.append(9)
        y = list(s); y.append(9)
        if s.s != o:
            acc.violation("value_handed_out_aliases_state", case, None)
        for sl in itertools.product(SLICE_VALS, SLICE_VALS, [None, 1, 2, -1]):
            r = s[slice(*sl)]
            if not isinstance(r, lw.State) or r.s != o[slice(*sl)]:
                acc.violation("slice", {**case, "slice": sl}, None)
                break
        for i in range(-len(o), len(o)):
            if s[i] != o[i]:
                acc.violation("index", case, None)
            try:                # a position given as a numpy integer is the same position
                if s[np.int64(i)] != o[i] or s[np.int32(i)] != o[i]:
                    acc.violation("index", {**case, "index_type": "numpy integer"}, None)
            except Exception as e:  # noqa: BLE001
                acc.violation("index_numpy_integer_refused", {**case, "index": i}, {"error": repr(e)})
                break
        for label, setter in (("s", lambda: setattr(s, "s", [1])), ("n_modes", lambda: setattr(s, "n_modes", 3)),
                              ("item", lambda: s.__setitem__(0, 1))):
            try:
                setter()
                acc.violation("setter_not_blocked", {**case, "setter": label}, None)
            except lw.StateError:
                acc.tick("rejected_calls")
        if s.s != o:
            acc.violation("state_mutated_through_api", case, None)
        try:
            s[1.5]
            acc.violation("bad_subscript_accepted", case, None)
        except TypeError:
            pass
    # occupations given as numpy integers are the same states (equality, hash, dict key, slicing, merge)
    for s, o in zip(S, occ):
        if not o:
            continue
        for typ in (np.int64, np.int32):
            acc.tick("executions"); acc.tick("transitions")
            sn = lw.State([typ(x) for x in o])
            case = {"state": o, "element_type": typ.__name__, "seed": env.seed}
            if sn != s or s != sn or hash(sn) != hash(s) or {s: 1}.get(sn) != 1 or {sn: 1}.get(s) != 1:
                acc.violation("numpy_integer_state_differs", case, {"eq": bool(sn == s), "hash_eq": hash(sn) == hash(s)})
                break
            if sn.merge(s) != s.merge(s) or (sn + s) != (s + s) or sn[::-1] != s[::-1] or sn.n_photons != s.n_photons:
                acc.violation("numpy_integer_state_differs", case, {"what": "merge/+/slice/n_photons"})
                break
    n = len(S)
    for a in range(n):
        for b in range(n):
            acc.tick("executions"); acc.tick("transitions")
            case = {"a": occ[a], "b": occ[b], "seed": env.seed}
            eq = S[a] == S[b]
            if eq != (occ[a] == occ[b]) or (S[a] != S[b]) == eq:
                acc.violation("equality", case, None)
            if eq and hash(S[a]) != hash(S[b]):
                acc.violation("equal_states_hash_differently", case, None)
            if (S[a] + S[b]).s != occ[a] + occ[b]:
                acc.violation("concatenation", case, None)
            # augmented assignment makes a new state; the object other names still refer to does not change
            x = lw.State(list(occ[a])); alias = x; h0 = hash(x)
            x += S[b]
            if x.s != occ[a] + occ[b] or alias.s != occ[a] or hash(alias) != h0 or (occ[b] and x is alias) or S[b].s != occ[b]:
                acc.violation("augmented_concatenation_mutates", case, {"alias_now": alias.s})
            if len(occ[a]) == len(occ[b]):
                m = S[a].merge(S[b])
                if m.s != [x + y for x, y in zip(occ[a], occ[b])] or m != S[b].merge(S[a]):
                    acc.violation("merge", case, None)
                acc.nontriv("pair", tuple(occ[a]), tuple(occ[b]))
            else:
                try:
                    S[a].merge(S[b])
                    acc.violation("merge_of_different_lengths_accepted", case, None)
                except ValueError:
                    acc.tick("rejected_calls")
            if S[a].s != occ[a] or S[b].s != occ[b]:
                acc.violation("operand_mutated", case, None)
    small = [i for i, o in enumerate(occ) if len(o) <= 2]
    for a, b, c in itertools.product(small, repeat=3):
        acc.tick("executions"); acc.tick("transitions")
        if ((S[a] + S[b]) + S[c]) != (S[a] + (S[b] + S[c])):
            acc.violation("concatenation_not_associative", {"a": occ[a], "b": occ[b], "c": occ[c], "seed": env.seed}, None)
        if len(occ[a]) == len(occ[b]) == len(occ[c]):
            if S[a].merge(S[b]).merge(S[c]) != S[a].merge(S[b].merge(S[c])):
                acc.violation("merge_not_associative", {"a": occ[a], "b": occ[b], "c": occ[c], "seed": env.seed}, None)
    # a dict keyed by states behaves like one keyed by tuples
    d = {}
    for s, o in zip(S, occ):
        d[lw.State(list(o))] = tuple(o)
    if len(d) != len(occ) or any(d[lw.State(list(o))] != tuple(o) for o in occ):
        acc.violation("hash_eq_incoherent_as_dict_key", {"seed": env.seed}, None)
    for badtype in (1, "x", None, [1, 0]):
        try:
            S[3] + badtype
            acc.violation("addition_with_non_state_accepted", {"other": repr(badtype), "seed": env.seed}, None)
        except TypeError:
            pass
        if S[3] == badtype:
            acc.violation("equality", {"other": repr(badtype), "seed": env.seed}, None)


def label_assignments(max_photons):
    """per-mode label lists for <= 2 modes, every within-mode order"""
    labs = [0, 1, 2]
    out = []
    for n0 in range(0, max_photons + 1):
        for n1 in range(0, max_photons + 1 - n0):
            for l0 in itertools.product(labs, repeat=n0):
                for l1 in itertools.product(labs, repeat=n1):
                    out.append((list(l0), list(l1)))
    return out


def check_annotated(env, acc, max_photons):
    asg = label_assignments(max_photons)
    for a0, a1 in asg:
        case = {"labels": [a0, a1], "seed": env.seed}
        acc.tick("executions"); acc.tick("transitions")
        x = AnnotatedState([list(a0), list(a1)])
        y = AnnotatedState([sorted(a0), sorted(a1)])
        z = AnnotatedState([sorted(a0, reverse=True), sorted(a1, reverse=True)])
        acc.state("A", tuple(sorted(a0)), tuple(sorted(a1)))
        if x != y or x != z or hash(x) != hash(y) or hash(x) != hash(z):
            acc.violation("label_order_matters", case, None)
        if x.n_photons != len(a0) + len(a1) or x.n_modes != 2 or len(x) != 2:
            acc.violation("counts_inconsistent", case, None)
        h0 = hash(x)
        snapshot = [sorted(a0), sorted(a1)]
        try:
            if x[np.int64(1)] != sorted(a1) or x[np.int32(0)] != sorted(a0):
                acc.violation("index", {**case, "index_type": "numpy integer"}, None)
        except Exception as e:  # noqa: BLE001
            acc.violation("index_numpy_integer_refused", case, {"error": repr(e)})
        g = x[0]; g.append(99)                       # value handed out by integer indexing
        if x.s != snapshot or hash(x) != h0 or x.n_photons != len(a0) + len(a1):
            acc.violation("value_handed_out_aliases_state", {**case, "via": "__getitem__(int)"}, None)
            x = AnnotatedState([list(a0), list(a1)])
        v = x.s; v[0].append(5); v.append([1])
        if x.s != snapshot:
            acc.violation("value_handed_out_aliases_state", {**case, "via": "s"}, None)
        for m in x:
            m.append(7)
        if x.s != snapshot:
            acc.violation("value_handed_out_aliases_state", {**case, "via": "iteration"}, None)
        src = [list(a0), list(a1)]
        w = AnnotatedState(src); src[0].append(3)
        if w.s != snapshot:
            acc.violation("constructor_keeps_caller_list", case, None)
        r = x[0:1]
        if not isinstance(r, AnnotatedState) or r.s != snapshot[0:1]:
            acc.violation("slice", case, None)
        for label, setter in (("s", lambda: setattr(x, "s", [[1]])), ("n_modes", lambda: setattr(x, "n_modes", 3)),
                              ("item", lambda: x.__setitem__(0, [1]))):
            try:
                setter()
                acc.violation("setter_not_blocked", {**case, "setter": label}, None)
            except AnnotatedStateError:
                acc.tick("rejected_calls")
    keys = [(tuple(sorted(a0)), tuple(sorted(a1))) for a0, a1 in asg]
    small = [i for i, (a0, a1) in enumerate(asg) if len(a0) + len(a1) <= 2]
    objs = [AnnotatedState([list(a0), list(a1)]) for a0, a1 in asg]
    for i in range(len(asg)):         # equality is decided by the label multisets, for every pair
        for j in range(len(asg)):
            if i in small and j in small:
                continue
            acc.tick("executions"); acc.tick("transitions")
            if (objs[i] == objs[j]) != (keys[i] == keys[j]) or (objs[i] != objs[j]) != (keys[i] != keys[j]):
                acc.violation("equality", {"a": asg[i], "b": asg[j], "seed": env.seed}, None)
            elif objs[i] == objs[j] and hash(objs[i]) != hash(objs[j]):
                acc.violation("equal_states_hash_differently", {"a": asg[i], "b": asg[j], "seed": env.seed}, None)
    for i in small:
        for j in small:
            acc.tick("executions"); acc.tick("transitions")
            x = AnnotatedState([list(asg[i][0]), list(asg[i][1])])
            y = AnnotatedState([list(asg[j][0]), list(asg[j][1])])
            case = {"a": asg[i], "b": asg[j], "seed": env.seed}
            if (x == y) != (keys[i] == keys[j]):
                acc.violation("equality", case, None)
            if x == y and hash(x) != hash(y):
                acc.violation("equal_states_hash_differently", case, None)
            m = x.merge(y)
            want = [sorted(asg[i][0] + asg[j][0]), sorted(asg[i][1] + asg[j][1])]
            if m.s != want or m != y.merge(x):
                acc.violation("merge", case, None)
            cc = x + y
            if cc.s != [sorted(asg[i][0]), sorted(asg[i][1]), sorted(asg[j][0]), sorted(asg[j][1])]:
                acc.violation("concatenation", case, None)
            if x.s != [sorted(asg[i][0]), sorted(asg[i][1])]:
                acc.violation("operand_mutated", case, None)
            acc.nontriv("apair", keys[i], keys[j])


def check_many_heralds(env, acc):
    """More heralds than visible modes, on 9-12 modes in total: every choice of 3 visible positions."""
    vis = [3, 1, 2]
    for total in (9, 10, 12):
        for pos in itertools.combinations(range(total), 3):
            hm = [m for m in range(total) if m not in pos]
            heralds = {m: (i % 3) for i, m in enumerate(reversed(hm))}          # keys in descending order
            acc.tick("executions"); acc.tick("transitions")
            full = add_heralds_to_state(lw.State(list(vis)), heralds)
            want = [None] * total
            for m, v in heralds.items():
                want[m] = v
            for m, v in zip(pos, vis):
                want[m] = v
            back = remove_heralds_from_state(full, list(heralds))
            if list(full) != want or list(back) != vis:
                acc.violation("herald_round_trip", {"scenario": "many_heralds", "total_modes": total, "visible_positions": pos,
                                                    "seed": env.seed}, {"full": list(full), "back": list(back)})
                return
            acc.state("many_heralds", total, pos)


def check_heralds(env, acc, maxlen):
    for L in range(0, maxlen + 1):
        for st in itertools.product([0, 1, 2], repeat=L):
            for k in range(0, 4 if L <= 2 else (3 if L + 2 <= 5 else 2)):
                for pos in itertools.permutations(range(L + k), k):         # every key insertion order
                    h = {p: (i + 1) % 3 for i, p in enumerate(pos)}
                    acc.tick("executions"); acc.tick("transitions")
                    case = {"state": st, "heralds": list(h.items()), "seed": env.seed}
                    s0 = lw.State(list(st))
                    full = add_heralds_to_state(s0, h)
                    if len(full) != L + k or any(full[p] != n for p, n in h.items()):
                        acc.violation("herald_insertion", case, {"full": full})
                        continue
                    rest = [v for i, v in enumerate(full) if i not in h]
                    if rest != list(st):
                        acc.violation("herald_insertion_reorders_state", case, {"full": full})
                    back = remove_heralds_from_state(lw.State(list(full)), list(h.keys()))
                    back2 = remove_heralds_from_state(list(full), list(h.keys()))
                    if back != list(st) or back2 != list(st):
                        acc.violation("herald_round_trip", case, {"back": back})
                    if add_heralds_to_state(list(st), h) != full:
                        acc.violation("herald_list_vs_state", case, None)
                    if s0.s != list(st) or list(h.items()) != [(p, (i + 1) % 3) for i, p in enumerate(pos)]:
                        acc.violation("argument_mutated", case, None)
                    if k:
                        acc.nontriv("h", st, pos)
                        acc.state("h", st, tuple(sorted(pos)))


def check_conversions(env, acc):
    grid = [0, 1e-12, 1e-9, 1e-6, 1e-5, 1e-4, 1e-3, 2e-3, 2.3e-3, 0.01, 0.1, 0.25, 0.5, 0.75, 0.9, 0.99, 0.999999] + kernel.generic_reals(env.seed + 3, 5, 0, 1)
    for x in grid:
        acc.tick("executions"); acc.tick("transitions")
        db = lw.decimal_to_db_loss(x)
        if db < 0 or abs(lw.db_loss_to_decimal(db) - x) > 1e-14:
            acc.violation("decimal_db_round_trip", {"decimal": x, "seed": env.seed}, {"db": db, "back": lw.db_loss_to_decimal(db)})
    for db in [0, 1e-6, 1e-4, 1e-3, 5e-3, 9.9e-3, 0.01, 0.0101, 0.1, 1, 3, 10, 20, 60, -3, -10, -5e-3] + [10 * v for v in kernel.generic_reals(env.seed + 4, 4, 0, 1)]:
        acc.tick("executions"); acc.tick("transitions")
        d = lw.db_loss_to_decimal(db)
        if not 0 <= d < 1 or abs(lw.decimal_to_db_loss(d) - abs(db)) > 1e-9 * max(1, abs(db)):
            acc.violation("db_decimal_round_trip", {"db": db, "seed": env.seed}, {"decimal": d})
        if abs(d - (1 - 10 ** (-abs(db) / 10))) > 1e-15:
            acc.violation("db_to_decimal_formula", {"db": db, "seed": env.seed}, None)
    # large losses: 1 - 10**(-dB/10) is within a few ulp of 1, so the way back is ill-conditioned (0.05 dB at 140 dB);
    # what must hold is that the conversion does not saturate: tolerance 0.1 dB, and the values keep increasing
    prev = -1.0
    for db in (60, 90, 100, 110, 119, 120, 121, 125, 130, 135, 140):
        acc.tick("executions"); acc.tick("transitions")
        d = lw.db_loss_to_decimal(db)
        back = lw.decimal_to_db_loss(d) if d < 1 else None
        if back is None or abs(back - db) > 0.1 or not back > prev:
            acc.violation("db_decimal_round_trip", {"db": db, "seed": env.seed}, {"decimal": repr(d), "back": back})
        prev = back if back is not None else prev
    for bad in (1, 1.5, -0.1):
        try:
            lw.decimal_to_db_loss(bad)
            acc.violation("invalid_decimal_loss_accepted", {"decimal": bad, "seed": env.seed}, None)
        except ValueError:
            acc.tick("rejected_calls")


def check_random(env, acc):
    for N in range(1, 6):
        us = {}
        for sd in (0, 1, 2):
            acc.tick("executions", 4); acc.tick("transitions", 4)
            u1 = lw.random_unitary(N, seed=sd); keep_u = u1.copy()
            p1 = lw.random_permutation(N, seed=sd); keep_p = p1.copy()
            u1[:] = 0; p1 *= 3                      # the caller owns what was returned: poison it
            u2, p2 = lw.random_unitary(N, seed=sd), lw.random_permutation(N, seed=sd)
            u1, p1 = keep_u, keep_p
            case = {"N": N, "random_seed": sd, "seed": env.seed}
            if not np.array_equal(u1, u2) or not np.array_equal(p1, p2):
                acc.violation("seeded_generator_not_reproducible", case, None)
            if u1.shape != (N, N) or not np.allclose(u1.conj().T @ u1, np.eye(N), atol=1e-10):
                acc.violation("random_unitary_not_unitary", case, None)
            ok_perm = p1.shape == (N, N) and np.all((p1 == 0) | (p1 == 1)) and \
                np.all(p1.sum(axis=0) == 1) and np.all(p1.sum(axis=1) == 1)
            if not ok_perm:
                acc.violation("random_permutation_not_a_permutation", case, None)
            us[sd] = u1
            acc.state("rand", N, sd)
        if N >= 2 and np.array_equal(us[0], us[1]) and np.array_equal(us[1], us[2]):
            acc.tick("different_seeds_same_unitary")
    # seeds that are whole numbers without being Python ints: documented as converted, so they seed like the int
    from fractions import Fraction
    for sd in (7.0, np.float64(11.0), Fraction(5, 1), np.int64(3), np.uint8(4), np.int32(0)):
        for N in (1, 3, 4):
            acc.tick("executions", 2); acc.tick("transitions", 2)
            case = {"N": N, "random_seed": repr(sd), "seed": env.seed}
            try:
                same = np.array_equal(lw.random_unitary(N, seed=sd), lw.random_unitary(N, seed=int(sd))) and \
                    np.array_equal(lw.random_permutation(N, seed=sd), lw.random_permutation(N, seed=int(sd)))
            except Exception as e:  # noqa: BLE001
                acc.violation("integral_seed_refused", case, {"error": repr(e)})
                continue
            if not same:
                acc.violation("seeded_generator_not_reproducible", case, None)
            acc.state("rand-seedtype", N, repr(sd))
    for bad in (1.5, "a", True):
        try:
            lw.random_unitary(2, seed=bad)
            acc.violation("invalid_seed_accepted", {"seed_value": repr(bad), "seed": env.seed}, None)
        except TypeError:
            acc.tick("rejected_calls")


def run(tier, seed):
    env = Env(seed)
    parts = [("states", lambda a: check_states(env, a, 3 if tier == "quick" else 5)),
             ("annotated", lambda a: check_annotated(env, a, 3 if tier == "quick" else 4)),
             ("heralds", lambda a: check_heralds(env, a, 3 if tier == "quick" else 4)),
             ("many_heralds", lambda a: check_many_heralds(env, a)),
             ("conv", lambda a: check_conversions(env, a)),
             ("random", lambda a: check_random(env, a))]

    def shard_fn(ps):
        acc = kernel.Acc()
        for name, fn in ps:
            fn(acc)
        return acc

    acc = kernel.pmap(shard_fn, [[p] for p in parts])
    acc.sample({"state": [2, 0, 1], "checked": ["eq/hash vs every other state", "all slices", "blocked setters",
                                                 "copies handed out", "+ and merge laws"]})
    acc.sample({"annotated": [[2, 0], [1]], "heralds_in_key_order": [[3, 1], [0, 2]]})
    meta = {
        "rule": "every occupation list of length <= 3 (4 thorough) over {0,1,2}: all pairs (eq/hash/+/merge), all "
                "triples of length <= 2 (associativity), every slice with start/stop in {None,-2..3} and step in "
                "{None,1,2,-1}, blocked setters, independence of values handed out; annotated states: every label "
                "assignment of <= 3 (4) photons over 2 modes in every within-mode order; herald dictionaries: every "
                "set of <= 2 positions in every key insertion order for every state of length <= 3 (4); dB<->decimal on "
                "a grid incl. 0; random_unitary/permutation N<=5, seeds {0,1,2} twice. distinct_nontrivial = equal-length "
                "state pairs, annotated pairs, non-empty herald dictionaries.",
        "exhaustive": True,
        "bounds": {"max_state_length": 3 if tier == "quick" else 5},
        "assumptions": ["caller-retained lists passed to State(...) are outside the alphabet (statement silent)"],
    }
    return acc, meta


def replay(w, acc):
    env = Env(w["case"].get("seed", 0))
    check_states(env, acc, 3); check_annotated(env, acc, 3); check_heralds(env, acc, 3); check_many_heralds(env, acc)
    check_conversions(env, acc); check_random(env, acc)
