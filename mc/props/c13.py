"""C13 — the qubit gate library implements the gates it names (E1 over every
gate class x angle alphabet x target option x swap mode tuple x basis input)."""
from __future__ import annotations

import itertools
import math

import numpy as np

import lightworks as lw
from lightworks import qubit

from .. import kernel, ref_qubit as rq
from ..circuit_ops import Env

TOL = 1e-9


def angles(env, tier):
    g = env.PH
    a = [0, math.pi / 2, math.pi, g[0], g[1], g[2]]
    if tier == "thorough":
        a += [-math.pi, 2 * math.pi, 3 * math.pi, -g[2], g[0] / 7, 4 * math.pi + g[0], -2 * math.pi - g[1],
              1e-9, math.pi - 1e-9, 7 * math.pi / 2, -4 * math.pi, 100.0]
        a += [k * math.pi / 8 for k in range(-16, 33)]
    return a


def gate_cases(env, tier):
    """(label, constructor, n_qubits, target matrix, expected |s|^2, heralded?)"""
    cases = []
    for nm in ("I", "H", "X", "Y", "Z", "S", "Sadj", "T", "Tadj", "SX"):
        cases.append((nm, (nm, ()), 1, rq.single(nm), 1.0, False))
    for th in angles(env, tier):
        for nm in ("Rx", "Ry", "Rz", "P"):
            cases.append(("%s(%r)" % (nm, th), (nm, (th,)), 1, rq.single(nm, th), 1.0, False))
    cases.append(("CZ", ("CZ", ()), 2, rq.controlled_z(2, (0, 1)), 1 / 9, False))
    cases.append(("CZ_Heralded", ("CZ_Heralded", ()), 2, rq.controlled_z(2, (0, 1)), 1 / 16, True))
    for t in (0, 1):
        cases.append(("CNOT(%d)" % t, ("CNOT", (t,)), 2, rq.controlled_x(2, (1 - t,), t), 1 / 9, False))
        cases.append(("CNOT_Heralded(%d)" % t, ("CNOT_Heralded", (t,)), 2, rq.controlled_x(2, (1 - t,), t),
                      1 / 16, True))
    for t in (0, 1):            # integer-valued numpy targets are accepted like ints
        cases.append(("CNOT(np.int64(%d))" % t, ("CNOT", (np.int64(t),)), 2, rq.controlled_x(2, (1 - t,), t), 1 / 9, False))
        cases.append(("CNOT_Heralded(np.int32(%d))" % t, ("CNOT_Heralded", (np.int32(t),)), 2,
                      rq.controlled_x(2, (1 - t,), t), 1 / 16, True))
    for t in (0, 1, 2):
        cs = tuple(q for q in range(3) if q != t)
        cases.append(("CCNOT(np.int64(%d))" % t, ("CCNOT", (np.int64(t),)), 3, rq.controlled_x(3, cs, t), 1 / 72, False))
    cases.append(("CNOT()", ("CNOT", ()), 2, rq.controlled_x(2, (0,), 1), 1 / 9, False))
    cases.append(("CNOT_Heralded()", ("CNOT_Heralded", ()), 2, rq.controlled_x(2, (0,), 1), 1 / 16, True))
    cases.append(("CCZ", ("CCZ", ()), 3, rq.controlled_z(3, (0, 1, 2)), 1 / 72, False))
    for t in (0, 1, 2):
        cs = tuple(q for q in range(3) if q != t)
        cases.append(("CCNOT(%d)" % t, ("CCNOT", (t,)), 3, rq.controlled_x(3, cs, t), 1 / 72, False))
    cases.append(("CCNOT()", ("CCNOT", ()), 3, rq.controlled_x(3, (0, 1), 2), 1 / 72, False))
    return cases


def check_gate(case, env, acc):
    label, (cls, args), n, G, s2_want, heralded = case
    cc = {"gate": label, "seed": env.seed}
    acc.tick("executions"); acc.tick("transitions")
    try:
        circ = getattr(qubit, cls)(*args)
    except Exception as e:  # noqa: BLE001
        acc.violation("gate_constructor_raises", cc, {"error": repr(e)})
        return
    # post-selected gates: one photon per qubit at the output is part of the stated restriction;
    # heralded gates: every heralds-satisfied output counts (no accepted output outside the subspace)
    A, leak, leak_at = rq.circuit_gate_matrix(circ, n)
    acc.tick("amplitudes", A.size)
    s2, err = rq.compare_up_to_scalar(A, G)
    acc.state(label)
    if err > TOL:
        acc.violation("not_the_named_gate", cc, {"max_err": err, "s2": s2, "A": A})
    elif abs(s2 - s2_want) > 1e-9:
        acc.violation("wrong_success_probability", cc, {"s2": s2, "expected": s2_want})
    if heralded and leak > TOL:
        acc.violation("heralded_gate_leaks_outside_qubit_subspace", cc, {"amp": leak, "at": leak_at})
    if not np.allclose(G, np.diag(np.diag(G))) or n > 1 or abs(abs(G[1, 1] / G[0, 0]) - 1) < 1e-12:
        acc.nontriv(label)
    # the gate object handed on: plain and frozen copies are the same gate
    for how, cp in (("copy", circ.copy()), ("frozen_copy", circ.copy(freeze_parameters=True))):
        acc.tick("executions"); acc.tick("transitions")
        A2, leak2, _ = rq.circuit_gate_matrix(cp, n)
        if np.abs(A2 - A).max() > TOL or cp.heralds != circ.heralds:
            acc.violation("copy_of_gate_is_another_gate", {**cc, "how": how}, {"max_diff": float(np.abs(A2 - A).max())})
    acc.outcome("%dq:s2=%.4f" % (n, s2_want))
    acc.sample({"gate": label, "basis_inputs": 2 ** n, "target": "literal matrix, big-endian"}, limit=3)


def check_sequences(env, acc):
    """Gates built one after another in the same process: what an earlier constructor call did (a nearby angle, an
    edited instance) must not leak into a later one."""
    for nm in ("Rx", "Ry", "Rz", "P"):
        for t in (0.8, env.PH[0], -env.PH[1], math.pi / 4):
            seq = [t, t + 4e-4, t - 3e-4, t + 1e-7, t]
            for k, th in enumerate(seq):
                cc = {"gate": "%s(%r)" % (nm, th), "built_after": seq[:k], "seed": env.seed, "scenario": "sequence"}
                acc.tick("executions"); acc.tick("transitions")
                circ = getattr(qubit, nm)(th)
                A, _, _ = rq.circuit_gate_matrix(circ, 1)
                s2, err = rq.compare_up_to_scalar(A, rq.single(nm, th))
                if err > TOL or abs(s2 - 1) > 1e-9:
                    acc.violation("not_the_named_gate", cc, {"max_err": err, "s2": s2})
                acc.state("seq", nm, t, k)
                if k:
                    acc.nontriv("seq", nm, t, k)
    fixed = [("H", (), 1), ("S", (), 1), ("SX", (), 1), ("CZ", (), 2), ("CNOT", (1,), 2), ("CZ_Heralded", (), 2), ("CCZ", (), 3)]
    for cls, args, n in fixed:
        acc.tick("executions"); acc.tick("transitions")
        first = getattr(qubit, cls)(*args)
        A0, _, _ = rq.circuit_gate_matrix(first, n)
        first.ps(0, 0.3); first.bs(0, reflectivity=0.3)            # the caller edits its own instance
        second = getattr(qubit, cls)(*args)
        A1, _, _ = rq.circuit_gate_matrix(second, n)
        if np.abs(A1 - A0).max() > TOL:
            acc.violation("editing_one_instance_changed_the_next", {"gate": cls, "seed": env.seed, "scenario": "sequence"},
                          {"max_diff": float(np.abs(A1 - A0).max())})
        acc.state("seq-fixed", cls)
    # a gate object used to build something (added twice to a register next to its own ancillas, chained with +)
    # is still the gate afterwards, and the composite is the product
    for cls, args, n in (("CNOT_Heralded", (), 2), ("CZ_Heralded", (), 2), ("CZ", (), 2), ("CNOT", (0,), 2), ("H", (), 1), ("T", (), 1)):
        acc.tick("executions"); acc.tick("transitions", 2)
        g = getattr(qubit, cls)(*args)
        A0, _, _ = rq.circuit_gate_matrix(g, n)
        h0 = (g.n_modes, g.input_modes, g.heralds)
        host = lw.Circuit(2 * (n + 1))
        try:
            host.add(g, 0); host.add(g, 2)
        except Exception as e:  # noqa: BLE001
            acc.violation("gate_cannot_be_added_twice", {"gate": cls, "seed": env.seed, "scenario": "sequence"}, {"error": repr(e)})
            continue
        try:
            A1, _, _ = rq.circuit_gate_matrix(g, n)
            same = np.abs(A1 - A0).max() <= TOL and (g.n_modes, g.input_modes, g.heralds) == h0
        except Exception:  # noqa: BLE001
            same = False
        if not same:
            acc.violation("using_a_gate_changed_it", {"gate": cls, "how": "added twice", "seed": env.seed, "scenario": "sequence"}, None)
        acc.state("seq-reuse", cls)
    # gates cascaded on a 3-qubit register: two heralded gates in ascending and in descending order, then a gate
    # that spans both groups of ancillas
    for order in ((0, 1), (1, 0)):
        for last in ("SWAP02", "CCZ", "CCNOT", "CZ12"):
            for first in ("CZ_Heralded", "CNOT_Heralded"):
                acc.tick("executions"); acc.tick("transitions", 3)
                host = lw.Circuit(6)
                want = np.eye(8, dtype=complex)
                for q in order:
                    host.add(getattr(qubit, first)(), 2 * q)
                    m = rq.controlled_z(3, (q, q + 1)) if first == "CZ_Heralded" else rq.controlled_x(3, (q,), q + 1)
                    want = m @ want
                if last == "SWAP02":
                    host.add(qubit.SWAP((0, 1), (4, 5)), 0); want = rq.swap(3, 0, 2) @ want
                elif last == "CCZ":
                    host.add(qubit.CCZ(), 0); want = rq.controlled_z(3, (0, 1, 2)) @ want
                elif last == "CCNOT":
                    host.add(qubit.CCNOT(), 0); want = rq.controlled_x(3, (0, 1), 2) @ want
                else:
                    host.add(qubit.CZ(), 2); want = rq.controlled_z(3, (1, 2)) @ want
                cc = {"gate": "%s x2 (order %s) then %s" % (first, order, last), "seed": env.seed, "scenario": "sequence"}
                try:
                    A, leak, _ = rq.circuit_gate_matrix(host, 3)
                    s2, err = rq.compare_up_to_scalar(A, want)
                except Exception as e:  # noqa: BLE001
                    acc.violation("gate_constructor_raises", cc, {"error": repr(e)})
                    continue
                if err > 1e-8 * max(1.0, math.sqrt(s2)) and err / math.sqrt(max(s2, 1e-300)) > 1e-6:
                    acc.violation("not_the_named_gate", cc, {"relative_err": err / math.sqrt(max(s2, 1e-300)), "s2": s2})
                acc.state("seq-register", cc["gate"])
    # library gates wrapped by the user in named blocks (a herald-free circuit holding groups), placed on a register at
    # an offset, before or after a heralded gate: each block acts on the qubit it was addressed to
    for blocks in ((("H", ()), ("S", ())), (("Ry", (1.1,)),), (("X", ()), ("T", ()), ("SX", ()))):
        for q in (0, 1, 2):
            for pre in (None, "CZ_Heralded", "CNOT"):
                acc.tick("executions"); acc.tick("transitions", len(blocks) + 1)
                sub = lw.Circuit(2)
                m1 = np.eye(2, dtype=complex)
                for nm, a in blocks:
                    sub.add(getattr(qubit, nm)(*a), 0, group=True, name="user block " + nm)
                    m1 = rq.single(nm, *a) @ m1
                host = lw.Circuit(6)
                want = np.eye(8, dtype=complex)
                if pre == "CZ_Heralded":
                    host.add(qubit.CZ_Heralded(), 0); want = rq.controlled_z(3, (0, 1)) @ want
                elif pre == "CNOT":
                    host.add(qubit.CNOT(), 2); want = rq.controlled_x(3, (1,), 2) @ want
                host.add(sub, 2 * q)
                want = rq.kron(*[m1 if k == q else np.eye(2) for k in range(3)]) @ want
                cc = {"gate": "blocks %s on qubit %d after %s" % ("+".join(b[0] for b in blocks), q, pre), "seed": env.seed,
                      "scenario": "sequence"}
                try:
                    A, leak, _ = rq.circuit_gate_matrix(host, 3)
                    s2, err = rq.compare_up_to_scalar(A, want)
                except Exception as e:  # noqa: BLE001
                    acc.violation("gate_constructor_raises", cc, {"error": repr(e)})
                    continue
                if err > 1e-8 * max(1.0, math.sqrt(s2)) and err / math.sqrt(max(s2, 1e-300)) > 1e-6:
                    acc.violation("not_the_named_gate", cc, {"relative_err": err / math.sqrt(max(s2, 1e-300)), "s2": s2})
                acc.state("seq-blocks", cc["gate"])
    chains = [(("H", ()), ("Z", ()), ("H", ())), (("Rz", (0.4,)), ("Ry", (1.1,)), ("Rz", (0.4,))), (("S", ()), ("H", ()), ("S", ())),
              (("H", ()), ("S", ()), ("T", ())), (("Rx", (0.7,)), ("Rz", (1.1,)), ("H", ())), (("X", ()), ("S", ()), ("SX", ()))]
    for chain in chains:
        acc.tick("executions"); acc.tick("transitions", 2)
        objs = {}
        for nm, a in chain:
            objs.setdefault((nm, a), getattr(qubit, nm)(*a))        # the same object where the same gate recurs
        mats = {k: rq.circuit_gate_matrix(v, 1)[0] for k, v in objs.items()}
        comp = objs[chain[0]] + objs[chain[1]] + objs[chain[2]]
        want = rq.single(chain[2][0], *chain[2][1]) @ rq.single(chain[1][0], *chain[1][1]) @ rq.single(chain[0][0], *chain[0][1])
        s2, err = rq.compare_up_to_scalar(rq.circuit_gate_matrix(comp, 1)[0], want)
        cc = {"gate": "+".join(c_[0] for c_ in chain), "seed": env.seed, "scenario": "sequence"}
        if err > TOL or abs(s2 - 1) > 1e-9:
            acc.violation("not_the_named_gate", cc, {"max_err": err})
        for k, v in objs.items():
            if np.abs(rq.circuit_gate_matrix(v, 1)[0] - mats[k]).max() > TOL:
                acc.violation("using_a_gate_changed_it", {**cc, "how": "operand of +", "operand": k[0]}, None)
        acc.state("seq-chain", cc["gate"])


def check_settings(env, acc):
    """settings.unitary_precision says how strictly a matrix is validated; loosening it must not change which
    matrix a gate implements (small angles, angles next to pi)."""
    old = lw.settings.unitary_precision
    lw.settings.unitary_precision = 1e-3
    try:
        for nm in ("Rx", "Ry", "Rz", "P"):
            for th in (1e-3, 1.2e-4, math.pi - 1e-3, -7e-4, env.PH[0]):
                cc = {"gate": "%s(%r)" % (nm, th), "unitary_precision": 1e-3, "seed": env.seed, "scenario": "settings"}
                acc.tick("executions"); acc.tick("transitions")
                try:
                    A, _, _ = rq.circuit_gate_matrix(getattr(qubit, nm)(th), 1)
                except Exception as e:  # noqa: BLE001
                    acc.violation("gate_constructor_raises", cc, {"error": repr(e)})
                    continue
                s2, err = rq.compare_up_to_scalar(A, rq.single(nm, th))
                if err > TOL or abs(s2 - 1) > 1e-9:
                    acc.violation("not_the_named_gate", cc, {"max_err": err, "s2": s2})
                acc.state("settings", nm, th)
    finally:
        lw.settings.unitary_precision = old


def check_swaps(env, acc, max_mode):
    G = rq.swap(2, 0, 1)
    for tup in itertools.permutations(range(max_mode + 1), 4):
        a0, a1, b0, b1 = tup
        cc = {"gate": "SWAP", "modes": tup, "seed": env.seed}
        acc.tick("executions"); acc.tick("transitions")
        try:
            c = qubit.SWAP((a0, a1), (b0, b1))
        except Exception as e:  # noqa: BLE001
            acc.violation("gate_constructor_raises", cc, {"error": repr(e)})
            continue
        # amplitude matrix over the two qubits' rails wherever they sit
        U = c.U_full
        n = c.n_modes
        if n != max(tup) + 1:
            acc.violation("swap_mode_count", cc, {"n_modes": n})
            continue
        A = np.zeros((4, 4), dtype=complex)
        leak = 0.0
        for ci, (x, y) in enumerate(itertools.product([0, 1], repeat=2)):
            ins = [0] * n
            ins[a1 if x else a0] += 1
            ins[b1 if y else b0] += 1
            for o in itertools.combinations_with_replacement(range(n), 2):
                outs = [0] * n
                for m in o:
                    outs[m] += 1
                amp = rq.ref_fock.amp(U, tuple(ins), tuple(outs))
                qa = [outs[a0], outs[a1]]
                qb = [outs[b0], outs[b1]]
                if sorted(qa) == [0, 1] and sorted(qb) == [0, 1]:
                    A[2 * qa[1] + qb[1], ci] = amp
                else:
                    leak = max(leak, abs(amp))
        s2, err = rq.compare_up_to_scalar(A, G)
        if err > TOL or abs(s2 - 1) > 1e-9 or leak > TOL:
            acc.violation("not_the_named_gate", cc, {"max_err": err, "s2": s2, "leak": leak})
        acc.state("SWAP", tup)
        acc.nontriv("SWAP", tup)
    bad = [((0, 1), (2,)), ((0,), (1, 2)), ((0, 1.5), (2, 3)), ((0, True), (2, 3)), ((0, 1), (1, 2)), ((0, 0), (1, 2))]
    for q1, q2 in bad:
        acc.tick("executions"); acc.tick("transitions")
        try:
            qubit.SWAP(q1, q2)
        except (ValueError, TypeError, lw.LightworksError):
            acc.tick("rejected_calls")
            continue
        acc.tick("illegal_swap_tuple_accepted_unchecked")     # statement silent on overlapping tuples
    for cls, arg in (("CNOT", 2), ("CNOT_Heralded", -1), ("CCNOT", 3)):
        acc.tick("executions"); acc.tick("transitions")
        try:
            getattr(qubit, cls)(arg)
            acc.violation("invalid_target_qubit_accepted", {"gate": cls, "target": arg, "seed": env.seed}, None)
        except ValueError:
            acc.tick("rejected_calls")


def run(tier, seed):
    env = Env(seed)
    cases = gate_cases(env, tier)

    def shard_fn(cs):
        acc = kernel.Acc()
        for c in cs:
            check_gate(c, env, acc)
        return acc

    acc = kernel.pmap(shard_fn, kernel.interleave(cases, kernel.NPROC))
    sw = kernel.Acc()
    check_swaps(env, sw, 4 if tier == "quick" else 6)
    acc.merge(sw)
    sq = kernel.Acc()
    check_sequences(env, sq)
    check_settings(env, sq)
    acc.merge(sq)
    meta = {
        "rule": "every class of lightworks.qubit x angle alphabet {0, pi/2, pi, generic, negative generic, 2pi+generic"
                " (+6 more in thorough)} x every target_qubit option (and the default) x SWAP on every 4-tuple of "
                "distinct modes in 0..4 (0..5 thorough) + invalid tuples/targets; for every basis input and every "
                "heralds-satisfied output with the right photon number the amplitude (RefFock on U_full) is compared "
                "with s x literal gate matrix, |s|^2 in {1,1/9,1/16,1/72}; heralded gates: no amplitude outside the "
                "qubit subspace. Sequences in one process: each rotation gate at 4 angles followed by angles 4e-4, 3e-4, "
                "1e-7 away and the same angle again; fixed gates rebuilt after the first instance was edited. distinct_nontrivial = gate instances that are not a pure global phase.",
        "exhaustive": True,
        "bounds": {"gate_instances": len(cases), "swap_mode_range": 4 if tier == "quick" else 6},
        "assumptions": ["big-endian convention (qubit 0 = first rail pair)", "linearity: basis inputs suffice",
                        "thewalrus permanent for >=5 photons, cross-checked against Ryser at start-up"],
    }
    return acc, meta


def replay(w, acc):
    case = w["case"]
    env = Env(case.get("seed", 0))
    if case.get("scenario") == "settings":
        check_settings(env, acc)
        return
    if case.get("scenario") == "sequence":
        check_sequences(env, acc)
        return
    if case.get("gate") == "SWAP" or "target" in case:
        check_swaps(env, acc, 5)
        return
    for c in gate_cases(env, "thorough"):
        if c[0] == case["gate"]:
            check_gate(c, env, acc)
