"""C01 — a circuit compiles to the ordered product of its components (E1)."""
from __future__ import annotations

import itertools

import numpy as np

import lightworks as lw

from .. import kernel
from ..circuit_ops import (Env, REJECT_TYPES, apply_impl, apply_ref, illegal_alphabet,
                           primitive_alphabet, static_legal)
from ..ref_circuit import RefCircuit

TOL = 1e-9


def run_program(n, prog, env, acc, record=True):
    """Execute one construction program on the real code and the reference."""
    c, r = lw.Circuit(n), RefCircuit(n)
    case = {"n": n, "prog": prog, "seed": env.seed}
    for i, op in enumerate(prog):
        legal = static_legal(op, n, env)
        try:
            c = apply_impl(c, op, env)
            raised = None
        except REJECT_TYPES as e:
            raised = e
        if legal and raised is not None:
            acc.violation("legal_call_refused", case,
                          {"op": op, "error": repr(raised)})
            return
        if not legal:
            if raised is None:
                # outside the property's quantifier ("values in the documented
                # ranges"): nothing is claimed about the result, stop this trace
                acc.tick("illegal_accepted_unchecked")
                return
            acc.tick("rejected_calls")
            continue                      # exploration continues after a refusal
        apply_ref(r, op, env)
        if i + 1 < len(prog):
            try:
                c.U            # the unitary is read while the circuit is still being built: later reads must not be stale
            except Exception:  # noqa: BLE001
                pass
    try:
        uf = c.U_full
        u = c.U
    except Exception as e:  # noqa: BLE001
        acc.violation("does_not_compile", case, {"error": repr(e), "cause": repr(e.__cause__)})
        return
    acc.state(n, uf.shape, np.round(uf, 9))
    if record and len(prog) >= 2 and not np.allclose(u, np.diag(np.diag(u)), atol=1e-12):
        acc.nontriv(n, np.round(u, 9))
    N = n + r.n_loss
    if c.n_modes != n:
        acc.violation("n_modes_changed", case, {"n_modes": c.n_modes})
    if uf.shape != (N, N):
        acc.violation("loss_mode_count", case, {"shape": list(uf.shape), "expected": N})
        return
    if not np.array_equal(u, uf[:n, :n]):
        acc.violation("U_not_leading_block", case, None)
    if not np.allclose(u, r.M, atol=TOL):
        acc.violation("product", case, {"max_err": float(np.abs(u - r.M).max()),
                                        "U": u, "expected": r.M})
    if not np.allclose(uf.conj().T @ uf, np.eye(N), atol=TOL):
        acc.violation("U_full_not_unitary", case,
                      {"max_err": float(np.abs(uf.conj().T @ uf - np.eye(N)).max())})
        acc.outcome("not_unitary")
    else:
        acc.outcome("ok:loss=%d" % r.n_loss)


def explore(n, alphabet, bad, depth, max_dev, env, tag):
    """All programs of length <= depth over alphabet+bad with <= max_dev refused calls."""
    alphabet = list(alphabet)
    bad = list(bad)
    allops = alphabet + bad
    isbad = {id(o): True for o in bad}

    def shard_fn(firsts):
        acc = kernel.Acc()
        for d in range(1, depth + 1):
            for f in firsts:
                fb = 1 if id(f) in isbad else 0
                if fb > max_dev:
                    continue
                for rest in (itertools.product(allops, repeat=d - 1) if d > 1 else [()]):
                    nb = fb + sum(1 for o in rest if id(o) in isbad)
                    if nb > max_dev:
                        continue
                    prog = (f,) + tuple(rest)
                    acc.tick("programs")
                    acc.tick("programs_dev%d" % nb)
                    acc.tick("transitions", len(prog))
                    acc.tick("%s_depth%d" % (tag, d))
                    run_program(n, prog, env, acc)
                    if nb and d >= 2:
                        acc.sample({"n": n, "prog": prog}, limit=1)
        return acc

    return kernel.pmap(shard_fn, kernel.interleave(allops, kernel.NPROC * 3))


def run(tier, seed):
    env = Env(seed)
    acc = kernel.Acc()
    bounds = {}
    if tier == "quick":
        plan = [(1, "full", 3, 1), (2, "full", 3, 1), (3, "full", 2, 1), (3, "reduced", 3, 1),
                (4, "reduced", 2, 1)]
    else:
        plan = [(1, "full", 4, 2), (2, "full", 4, 1), (2, "full", 3, 2), (3, "full", 3, 1), (3, "full", 2, 2),
                (3, "reduced", 4, 1), (4, "full", 2, 2), (4, "reduced", 3, 1), (5, "reduced", 2, 1)]
    for n, level, depth, dev in plan:
        alpha = primitive_alphabet(n, env, level)
        bad = illegal_alphabet(n, env) if dev else []
        if level == "reduced":
            bad = bad[::3]
        a = explore(n, alpha, bad, depth, dev, env, "n%d%s" % (n, level[0]))
        bounds["n=%d/%s" % (n, level)] = {"alphabet": len(alpha), "illegal_ops": len(bad),
                                          "depth": depth, "max_refused_calls": dev,
                                          "programs": int(a.counts["programs"])}
        acc.merge(a)
    acc.sample({"n": 3, "prog": [primitive_alphabet(3, env)[5], primitive_alphabet(3, env)[-8]]})
    meta = {
        "rule": "every construction program of length <= depth over the per-n alphabet "
                "(all ordered mode pairs x {Rx,H} x r in {0,g,1}; ps; loss in {0,g,1}; all "
                "permutations of all mode subsets; Haar unitary blocks grouped/ungrouped; "
                "barriers; +), with <= max_refused_calls illegal calls interleaved; executed on "
                "the real Circuit and on RefCircuit. distinct_nontrivial = distinct non-diagonal "
                "compiled U (rounded 1e-9) reached by programs of length >= 2.",
        "exhaustive": True,
        "bounds": bounds,
        "assumptions": ["generic parameter values stand for the open intervals (seed-varied)",
                        "numpy linear algebra"],
    }
    return acc, meta


def replay(w, acc):
    case = w["case"]
    env = Env(case.get("seed", 0))
    prog = tuple(_tup(o) for o in case["prog"])
    run_program(case["n"], prog, env, acc)


def _tup(o):
    if isinstance(o, list):
        return tuple(_tup(x) for x in o)
    return o
