"""C16 — process tomography and gate fidelity agree with the library's own
references (E1 over gate programs; the experiment callback is the harness)."""
from __future__ import annotations

import itertools

import numpy as np

import lightworks as lw
from lightworks.tomography import (GateFidelity, LIProcessTomography, MLEProcessTomography, choi_from_unitary)

from .. import kernel, ref_qubit as rq, tomo
from ..circuit_ops import Env, full_fingerprint


def programs(env, tier):
    a1 = tomo.one_qubit_alphabet(env)
    one = [(1, [(g, 0)]) for g in a1] + [(1, [(g, 0), (h, 0)]) for g, h in itertools.product(a1, repeat=2)]
    ent = [("CNOT",), ("CNOT", 0), ("CZ",), ("SWAP",), ("CNOT_Heralded", 0), ("CZ_Heralded",)]
    layers = [None, (a1[4], a1[9]), (a1[8], a1[7]), (a1[0], a1[11])]
    two = []
    for e in ent:
        for l, t in itertools.product(layers, repeat=2):
            prog = []
            if l:
                prog += [(l[0], 0), (l[1], 1)]
            prog.append((e, 0))
            if t:
                prog += [(t[0], 0), (t[1], 1)]
            two.append((2, prog))
    two.append((2, [(a1[9], 0), (("CNOT",), 0), (a1[4], 1), (("CNOT", 0), 0), (a1[7], 0)]))
    anc = ("ANC", env.R2)          # ancilla between the rails of a qubit
    one += [(1, [(anc, 0)]), (1, [(a1[4], 0), (anc, 0)]), (1, [(anc, 0), (a1[9], 0)])]
    two.append((2, [(a1[0], 0), (anc, 1), (("CNOT",), 0), (a1[4], 1)]))
    # heralds placed directly on the base circuit, at or below qubit modes (not through an added sub-circuit)
    for w in tomo.WRAPPERS:
        one.append((1, [(a1[0], 0), (a1[9], 0), ((w,), 0)]))
    two.insert(0, (2, [(a1[0], 0), (a1[9], 1), (("CNOT",), 0), (a1[4], 0), (("DHmid",), 0)]))
    two.insert(2, (2, [(a1[9], 0), (("CZ",), 0), (a1[7], 1), (("DH0",), 0)]))
    return one, two


def partial_traces(choi, d):
    t = choi.reshape(d, d, d, d)
    return np.einsum("ijkj->ik", t), np.einsum("jijk->ik", t)


def experiment_for(n, scale=1.0):
    def experiment(circuits, inputs):
        return [tomo.outcome_frequencies(c, n, tuple(i.s), scale * (1 + 0.37 * (j % 5)))
                for j, (c, i) in enumerate(zip(circuits, inputs))]
    return experiment


def check_process(n, prog, methods, env, acc):
    case = {"n_qubits": n, "prog": prog, "seed": env.seed}
    base = tomo.build_base(n, prog)
    fp0 = full_fingerprint(base)
    V, s2 = tomo.qubit_unitary(base, n)
    Vlit = tomo.program_unitary(n, prog)
    # harness self-consistency: RefFock unitary of the circuit == literal product (up to phase)
    ph = np.vdot(Vlit.flatten(), V.flatten())
    if abs(abs(ph) - 2 ** n) > 1e-7:
        acc.tick("harness_unitary_mismatch")     # would be a C12/C13 matter; do not judge tomography on it
        return
    d = 2 ** n
    try:
        choi_ref = choi_from_unitary(V)
    except Exception as e:  # noqa: BLE001
        acc.violation("choi_from_unitary_raises", case, {"error": repr(e)})
        return
    complex_v = bool(np.abs((V / V.flat[np.argmax(np.abs(V))]).imag).max() > 1e-6) or not np.allclose(V, V.T, atol=1e-9)
    for m in methods:
        acc.tick("executions"); acc.tick("transitions")
        c = {**case, "method": m}
        try:
            if m == "LI":
                t = LIProcessTomography(n, base, experiment_for(n, (1.0, 1.0 / 9, 4096.0)[len(prog) % 3]))
                choi = t.process()
                err = float(np.abs(choi - choi_ref).max())
                if err > 1e-8:
                    acc.violation("li_choi_differs_from_choi_from_unitary", c, {"max_err": err})
                else:
                    f = t.fidelity(choi_ref)
                    if abs(f - 1) > 1e-4:
                        acc.violation("li_fidelity_not_one", c, {"fidelity": float(f)})
            elif m == "MLE":
                t = MLEProcessTomography(n, base, experiment_for(n))
                choi = t.process()
                if not np.allclose(choi, choi.conj().T, atol=1e-6):
                    acc.violation("mle_choi_not_hermitian", c, None)
                ev = np.linalg.eigvalsh((choi + choi.conj().T) / 2)
                # the estimate is a convex combination of outputs of the positive projection: non-negative up to rounding
                # (measured on the unchanged tree: > -1e-15 over every job of three seeds), so 1e-9 and not the solver's 1e-3
                if ev.min() < -1e-9:
                    acc.violation("mle_choi_not_positive", c, {"min_eigenvalue": float(ev.min())})
                pt_a, pt_b = partial_traces(choi, d)
                if min(np.abs(pt_a - np.eye(d)).max(), np.abs(pt_b - np.eye(d)).max()) > 1e-3:
                    acc.violation("mle_choi_not_trace_preserving", c,
                                  {"residual": float(min(np.abs(pt_a - np.eye(d)).max(), np.abs(pt_b - np.eye(d)).max()))})
                f = t.fidelity(choi_ref)
                if not f >= 0.99:
                    acc.violation("mle_fidelity_below_0.99", c, {"fidelity": float(f)})
            else:
                targets = [("V", V), ("X..", rq.kron(*[rq.X] * n)), ("Z..", rq.kron(*[rq.Z] * n)),
                           ("Y..", rq.kron(*[rq.Y] * n)), ("haar", kernel.haar(d, env.seed + 70 + n)),
                           ("H..", rq.kron(*[rq.H] * n))]
                for tl, tgt in targets:
                    g = GateFidelity(n, base, experiment_for(n, (1.0 / 16, 1.0, 1000.0)[len(prog) % 3]))
                    f = g.process(tgt)
                    want = (abs(np.trace(tgt.conj().T @ V)) ** 2 + d) / (d * (d + 1))
                    if abs(f - want) > 1e-8:
                        acc.violation("gate_fidelity_formula", {**c, "target": tl}, {"impl": float(f), "ref": float(want)})
                        break
        except Exception as e:  # noqa: BLE001
            acc.violation("tomography_raises", c, {"error": repr(e)})
    if full_fingerprint(base) != fp0:
        acc.violation("base_circuit_modified", case, None)
    acc.state(n, np.round(choi_from_unitary(Vlit) if False else np.outer(Vlit.flatten(), Vlit.flatten().conj()), 8))
    if complex_v:
        acc.nontriv(n, np.round(np.outer(Vlit.flatten(), Vlit.flatten().conj()), 8))
    acc.outcome("%dq:%s" % (n, "complex_or_nonsymmetric" if complex_v else "real_symmetric"))


def check_reuse(n, prog, edit, method, env, acc):
    """process(); edit base in place; process() again on the same object; repeated fidelity queries."""
    case = {"scenario": "reuse", "n_qubits": n, "prog": prog, "edit": edit, "method": method, "seed": env.seed}
    base = tomo.build_base(n, prog)
    acc.tick("executions", 2); acc.tick("transitions", 2); acc.tick("reuse_scenarios")
    def garbage(circuits, inputs):          # a first, useless experiment the object is constructed with
        return [{lw.State(list(tomo.rq.dual_rail(b))): 1.0 for b in itertools.product([0, 1], repeat=n)} for _ in circuits]

    try:
        if method == "GF":
            g = GateFidelity(n, base, garbage)
            g.experiment = experiment_for(n)           # replaced before use: the replacement is what must run
            V1, _ = tomo.qubit_unitary(base, n)
            f1 = g.process(V1)
            for gg, q in edit:
                base.add(getattr(lw.qubit, gg[0])(*gg[1:]), 2 * q)
            V2, _ = tomo.qubit_unitary(base, n)
            f2 = g.process(V2)
            if abs(f1 - 1) > 1e-8 or abs(f2 - 1) > 1e-8:
                acc.violation("second_process_call_ignores_edited_base_circuit", case, {"first": float(f1), "second": float(f2)})
            return
        t = (LIProcessTomography if method == "LI" else MLEProcessTomography)(n, base, garbage)
        t.experiment = experiment_for(n)
        c1 = t.process().copy()
        V1, _ = tomo.qubit_unitary(base, n)
        ref1 = choi_from_unitary(V1)
        fa, fb = t.fidelity(ref1), t.fidelity(ref1)
        if abs(fa - fb) > 1e-9 or not np.allclose(t.choi, c1, atol=1e-12) or not np.allclose(ref1, choi_from_unitary(V1)):
            acc.violation("fidelity_query_changes_result", case, {"first": float(fa), "second": float(fb),
                                                                  "trace_after": complex(np.trace(t.choi))})
        for gg, q in edit:
            base.add(getattr(lw.qubit, gg[0])(*gg[1:]), 2 * q)
        c2 = t.process()
        V2, _ = tomo.qubit_unitary(base, n)
        f2 = t.fidelity(choi_from_unitary(V2))
        if (method == "LI" and np.abs(c2 - choi_from_unitary(V2)).max() > 1e-8) or not f2 >= 0.99:
            acc.violation("second_process_call_ignores_edited_base_circuit", case,
                          {"fidelity_to_new": float(f2), "equals_first_result": bool(np.allclose(c2, c1, atol=1e-6))})
    except Exception as e:  # noqa: BLE001
        acc.violation("tomography_raises", case, {"error": repr(e)})


def run(tier, seed):
    env = Env(seed)
    one, two = programs(env, tier)
    jobs = []
    for n, prog in one:
        jobs.append((n, prog, ("LI", "MLE", "GF")))
    if tier == "thorough":
        a1t = tomo.one_qubit_alphabet(env)
        for g, h, k in itertools.product(a1t, repeat=3):
            jobs.append((1, [(g, 0), (h, 0), (k, 0)], ("LI", "GF") if (a1t.index(g) + a1t.index(h) + a1t.index(k)) % 7 else ("LI", "MLE", "GF")))
    k_mle = 6 if tier == "quick" else 4
    for i, (n, prog) in enumerate(two):
        if tier == "quick" and i % 2:
            continue
        ms = ["LI", "GF"]
        if i % k_mle == 0:
            ms.append("MLE")
        jobs.append((n, prog, tuple(ms)))
    jobs.sort(key=lambda j: -len(j[2]) * j[0] ** 3)

    a1 = tomo.one_qubit_alphabet(env)
    reuse = [(1, [(a1[9], 0)], [(a1[4], 0)], m) for m in ("LI", "MLE", "GF")] + \
            [(2, [(a1[6], 0), (a1[9], 1), (("CNOT", 0), 0)], [(("SWAP",), 0)], m) for m in ("LI", "GF")]

    def shard_fn(js):
        acc = kernel.Acc()
        if js and js[0] is jobs[0]:
            for n, prog, edit, m in reuse:
                if edit[0][0][0] == "SWAP":
                    continue
                check_reuse(n, prog, edit, m, env, acc)
            check_reuse(2, [(a1[6], 0), (a1[9], 1), (("CNOT", 0), 0)], [(a1[0], 1), (a1[4], 0)], "LI", env, acc)
            check_reuse(2, [(a1[6], 0), (a1[9], 1), (("CNOT", 0), 0)], [(a1[0], 1)], "GF", env, acc)
        for n, prog, ms in js:
            check_process(n, prog, ms, env, acc)
        if js:
            acc.sample({"n_qubits": js[0][0], "prog": js[0][1], "methods": js[0][2]}, limit=1)
        return acc

    acc = kernel.pmap(shard_fn, kernel.interleave(jobs, kernel.NPROC * 3))
    meta = {
        "rule": "1 qubit: every product of <= 2 gates from the 12-gate alphabet (LI, MLE and gate fidelity on each); 2 "
                "qubits: {CNOT both orientations, CZ, SWAP, heralded CNOT/CZ} x 4 leading x 4 trailing single-qubit "
                "layers (LI and gate fidelity on all, MLE on a fixed slice) + a two-entangler program. The harness is "
                "the experiment callback and answers with exact RefFock frequencies. Oracle: LI Choi == "
                "choi_from_unitary(V) (1e-8) and fidelity 1; MLE Choi Hermitian, positive, trace preserving, fidelity >= "
                "0.99; gate fidelity == (|tr U^dag V|^2 + d)/(d(d+1)) for targets {V, X, Y, Z, H, Haar}; base unchanged. "
                "V is the RefFock dual-rail unitary of the base circuit, cross-checked against the literal product. "
                "distinct_nontrivial = distinct processes that are complex or non-symmetric.",
        "exhaustive": True,
        "bounds": {"processes": len(jobs), "mle_runs": sum(1 for j in jobs if "MLE" in j[2])},
        "assumptions": ["MLE is an iterative solver: fidelity >= 0.99 and trace preservation to 1e-3 as stated; positivity to 1e-9 (the last step is a positive projection)", "scipy sqrtm inside the library's fidelity"],
    }
    return acc, meta


def replay(w, acc):
    from .c01 import _tup
    case = w["case"]
    prog = [(_tup(g), q) for g, q in case["prog"]]
    if case.get("scenario") == "reuse":
        check_reuse(case["n_qubits"], prog, [(_tup(g), q) for g, q in case["edit"]], case["method"], Env(case.get("seed", 0)), acc)
        return
    ms = (case["method"],) if "method" in case else ("LI", "MLE", "GF")
    check_process(case["n_qubits"], prog, ms, Env(case.get("seed", 0)), acc)
