"""C04 — Sampler distribution normalised, exact, backend-independent (E1 over
circuit recipes x every Fock input x backend)."""
from __future__ import annotations

import numpy as np

import lightworks as lw
from lightworks import emulator as emu

from .. import kernel, ref_fock
from ..circuit_ops import Env, build, emulator_family, herald_layout_family

THR = 1e-9      # documented per-state truncation (settings.sampler_probability_threshold)
EPS = 1e-11     # float rounding allowance


def ref_distribution(c, vin):
    uf = c.U_full
    n_loss = uf.shape[0] - c.n_modes
    fi = ref_fock.add_heralds(vin, c.heralds["input"]) + (0,) * n_loss
    return ref_fock.distribution(uf, fi, c.n_modes), sum(fi)


def compare(dist, ref, fold, n_inj, n_modes, label, case, acc):
    """dist: library {State: p}; ref/fold: reference {tuple: p}/{tuple: #full states}."""
    d = {}
    for s, p in dist.items():
        t = tuple(s.s)
        if t in d:
            acc.violation("duplicate_state_key", case, {"backend": label, "state": t})
        d[t] = float(p)
    total_full = sum(fold.values())
    ok = True
    for t, p in d.items():
        if p < 0:
            acc.violation("negative_probability", case, {"backend": label, "state": t, "p": p}); ok = False
        if len(t) != n_modes:
            acc.violation("wrong_state_length", case, {"backend": label, "state": t}); ok = False
        if sum(t) > n_inj:
            acc.violation("more_photons_than_injected", case, {"backend": label, "state": t, "p": p}); ok = False
    tot = sum(d.values())
    if abs(tot - 1) > total_full * THR + EPS:
        acc.violation("not_normalised", case, {"backend": label, "sum": tot, "allowed": total_full * THR})
        ok = False
    vac = tuple([0] * n_modes)
    for t in set(d) | set(ref):
        # truncated mass may be dropped from an entry (<= fold*THR) and, by the
        # documented bookkeeping, collected in the vacuum entry (<= total*THR)
        tol = (total_full if t == vac else fold.get(t, 0)) * THR + EPS
        if abs(d.get(t, 0.0) - ref.get(t, 0.0)) > tol:
            acc.violation("probability", case, {"backend": label, "state": t, "impl": d.get(t, 0.0),
                                                "ref": ref.get(t, 0.0), "tol": tol})
            ok = False
            break
    return d, ok


def check_circuit(recipe, env, maxph, acc):
    c, _ = build(recipe, env)
    nv = c.input_modes
    base = {"recipe": recipe, "seed": env.seed}
    acc.state(recipe["name"])
    for vin in ref_fock.basis_upto(nv, maxph):
        case = {**base, "input": vin}
        (ref, fold), n_inj = ref_distribution(c, vin)
        ds = {}
        for be in ("permanent", "slos"):
            acc.tick("executions"); acc.tick("transitions")
            # the name as it arrives from a config file or a command line: equal to the literal, not the same object
            s = emu.Sampler(c, lw.State(list(vin)), backend="".join(list(be)))
            ds[be], _ = compare(s.probability_distribution, ref, fold, n_inj, c.n_modes, be, case, acc)
        tf = sum(fold.values())
        for t in set(ds["permanent"]) | set(ds["slos"]):
            if abs(ds["permanent"].get(t, 0) - ds["slos"].get(t, 0)) > 2 * tf * THR + EPS:
                acc.violation("backends_disagree", case, {"state": t, "permanent": ds["permanent"].get(t, 0),
                                                          "slos": ds["slos"].get(t, 0)})
                break
        if len(ref) > 1 and n_inj:
            acc.nontriv(recipe["name"], vin)
        acc.outcome("support=%d" % min(len(ds["permanent"]), 9))
    acc.sample({"recipe": recipe["name"], "ops": recipe["ops"], "inputs": "all <=%d photons" % maxph}, limit=2)


def check_bunched(env, acc):
    """Two modes, many photons in one mode: the occupation factorials leave the 64-bit range at 21! (one mode) and at
    13!*13! (product); the reference expands the creation-operator polynomial with exact integers."""
    c = lw.Circuit(2)
    c.bs(0, reflectivity=env.R[1]); c.ps(0, env.PH[0]); c.bs(0, reflectivity=env.R2, convention="H")
    U = c.U_full
    plan = [((13, 0), ("permanent", "slos")), ((0, 16), ("permanent", "slos")), ((9, 9), ("permanent", "slos")),
            ((12, 12), ("slos",)), ((13, 13), ("slos",)), ((21, 0), ("slos",)), ((2, 22), ("slos",))]
    for vin, backends in plan:
        amps = ref_fock.evolve_poly(U, vin)
        ref = {k: abs(a) ** 2 for k, a in amps.items() if abs(a) ** 2 > 0}
        fold = {k: 1 for k in ref}
        for be in backends:
            case = {"scenario": "bunched", "input": vin, "backend": be, "seed": env.seed}
            acc.tick("executions"); acc.tick("transitions")
            try:
                d = emu.Sampler(c, lw.State(list(vin)), backend=be).probability_distribution
            except Exception as e:  # noqa: BLE001
                acc.violation("distribution_raises", case, {"error": repr(e), "cause": repr(e.__cause__)})
                continue
            compare(d, ref, fold, sum(vin), 2, be, case, acc)
            acc.state("bunched", vin, be)
            acc.nontriv("bunched", vin, be)


def check_coarse_threshold(env, acc, thr=0.02):
    """The documented truncation follows the live setting in BOTH backends: with a coarse threshold each backend keeps
    exactly the full-mode states whose probability exceeds it (lossless circuits: nothing is folded)."""
    old = lw.settings.sampler_probability_threshold
    lw.settings.sampler_probability_threshold = thr
    try:
        for rc in emulator_family(env, "quick"):
            if rc["n"] != 3:
                continue
            c, _ = build(rc, env)
            if c.U_full.shape[0] != c.n_modes:
                continue
            for vin in ref_fock.basis(c.input_modes, 2):
                (ref, fold), n_inj = ref_distribution(c, vin)
                want = {k: v for k, v in ref.items() if v > thr * 1.0001}
                edge = {k for k, v in ref.items() if abs(v - thr) <= thr * 1e-4}
                for be in ("permanent", "slos"):
                    case = {"scenario": "coarse_threshold", "recipe": rc, "input": vin, "backend": be, "threshold": thr,
                            "seed": env.seed}
                    acc.tick("executions"); acc.tick("transitions")
                    d = {tuple(k.s): float(v) for k, v in emu.Sampler(c, lw.State(list(vin)), backend=be).probability_distribution.items()}
                    if sum(vin) + sum(c.heralds["input"].values()) == 0:
                        continue
                    bad = [k for k in set(d) | set(want) if k not in edge and abs(d.get(k, 0.0) - want.get(k, 0.0)) > 1e-9]
                    if bad:
                        acc.violation("probability", case, {"state": bad[0], "impl": d.get(bad[0], 0.0), "ref": want.get(bad[0], 0.0)})
                    acc.state("coarse", rc["name"], vin, be)
                    if len(want) < len(ref):
                        acc.nontriv("coarse", rc["name"], vin, be)
    finally:
        lw.settings.sampler_probability_threshold = old


def check_backend_names(env, acc):
    """Every way of naming a backend: a name is either refused, or the sampler built with it returns the distribution
    (spellings the library accepts must not select 'no backend')."""
    names = ["permanent", "slos", "SLOS", "Slos", "Permanent", "PERMANENT", " slos", "slos ", "perm", "", "clifford", "Clifford"]
    for rc in emulator_family(env, "quick"):
        if rc["name"] not in ("n3/U/none", "n3/U,L/h1", "n3/L,U,L/io"):
            continue
        c, _ = build(rc, env)
        for vin in ref_fock.basis(c.input_modes, 2)[:4]:
            (ref, fold), n_inj = ref_distribution(c, vin)
            for nm in names:
                case = {"scenario": "backend_names", "recipe": rc, "input": vin, "backend": nm, "seed": env.seed}
                acc.tick("executions"); acc.tick("transitions")
                try:
                    s = emu.Sampler(c, lw.State(list(vin)), backend="".join(list(nm)))
                except (ValueError, NotImplementedError):
                    acc.tick("rejected_calls")
                    acc.outcome("backend_name:refused")
                    continue
                try:
                    d = s.probability_distribution
                except Exception as e:  # noqa: BLE001
                    acc.violation("distribution_raises", case, {"error": repr(e)})
                    continue
                compare(d, ref, fold, n_inj, c.n_modes, nm, case, acc)
                acc.outcome("backend_name:accepted")
                acc.state("names", rc["name"], vin, nm)
        # assigning the name later goes through the same rule
        s = emu.Sampler(c, lw.State([1] + [0] * (c.input_modes - 1)))
        (ref, fold), n_inj = ref_distribution(c, tuple([1] + [0] * (c.input_modes - 1)))
        for nm in names:
            case = {"scenario": "backend_names", "recipe": rc, "assign": True, "backend": nm, "seed": env.seed}
            acc.tick("executions"); acc.tick("transitions")
            try:
                s.backend = nm
            except (ValueError, NotImplementedError, TypeError):
                acc.tick("rejected_calls")
            try:
                compare(s.probability_distribution, ref, fold, n_inj, c.n_modes, nm, case, acc)
            except Exception as e:  # noqa: BLE001
                acc.violation("distribution_raises", case, {"error": repr(e)})


def run(tier, seed):
    env = Env(seed)
    fam = emulator_family(env, tier)
    maxph = {2: 5, 3: 2, 4: 2} if tier == "quick" else {2: 5, 3: 4, 4: 3, 5: 2}

    def shard_fn(recipes):
        acc = kernel.Acc()
        for rc in recipes:
            check_circuit(rc, env, maxph[rc["n"]], acc)
        return acc

    acc = kernel.pmap(shard_fn, kernel.interleave(fam, kernel.NPROC * 3))
    lay = herald_layout_family(env, tier)

    def shard_lay(recipes):
        a = kernel.Acc()
        for rc in recipes:
            check_circuit(rc, env, 2, a)
        return a

    acc.merge(kernel.pmap(shard_lay, kernel.interleave(lay, kernel.NPROC * 3)))
    b = kernel.Acc(); check_bunched(env, b); check_coarse_threshold(env, b); check_backend_names(env, b); acc.merge(b)
    meta = {
        "rule": "(plus 2-mode inputs with 13..26 photons, where occupation factorials exceed 64 bits) every circuit recipe of the emulator family (and every herald layout of <= 2 heralds on 3 modes, 4 in thorough: ordered "
                "input modes x ordered output modes x photon numbers {0,1,2}; every mode heralded on 2 and 3 modes) x every Fock input on the visible modes up to the photon "
                "bound (vacuum, bunched) x backend in {permanent, slos}; each distribution compared entry by entry with "
                "|amp|^2 over the complete Fock basis of all modes incl. loss modes, marginalised (tolerance = number of "
                "folded full states x 1e-9 documented truncation), plus non-negativity, photon bound, normalisation and "
                "backend agreement. distinct_nontrivial = (circuit,input) with >=1 photon and support > 1.",
        "exhaustive": True,
        "bounds": {"circuits": len(fam), "herald_layout_circuits": len(lay), "max_visible_photons": maxph},
        "assumptions": ["ideal source only (imperfect sources are C06)"],
    }
    return acc, meta


def replay(w, acc):
    case = w["case"]
    env = Env(case.get("seed", 0))
    if case.get("scenario") == "coarse_threshold":
        check_coarse_threshold(env, acc, case.get("threshold", 0.02))
        return
    if case.get("scenario") == "backend_names":
        check_backend_names(env, acc)
        return
    if case.get("scenario") == "bunched":
        check_bunched(env, acc)
        return
    rc = case["recipe"]
    check_circuit(rc, env, 2, acc)
