"""C05 — Simulator, Sampler, Analyzer and QuickSampler tell one consistent story
(E1 over circuit recipes x post-selections x input sets x expected maps x detector modes).

Every side of every relation is computed by the library; the harness only
combines (sums, conditions, renormalises) as the statement prescribes.
"""
from __future__ import annotations

import itertools
import math

import numpy as np

import lightworks as lw
from lightworks import emulator as emu

from .. import kernel, ref_fock
from ..circuit_ops import Env, build, emulator_family

THR = 1e-9
EPS = 1e-11


def post_selections(nv):
    """(label, factory) pairs; factories return a fresh object each time."""
    out = [("none", lambda: None)]
    def one():
        p = lw.PostSelection(); p.add(0, 1); return p
    out.append(("rule(0:1)", one))
    if nv >= 2:
        def multi():
            p = lw.PostSelection(); p.add((0, 1), (0, 1)); return p
        out.append(("rule((0,1):(0,1))", multi))
        def two():
            p = lw.PostSelection(); p.add(0, (0, 2)); p.add(nv - 1, (1, 0)); return p
        out.append(("two_rules", two))
        def mr():
            p = lw.PostSelection(multi_rules=True); p.add((0, 1), (1, 2)); p.add(0, (0, 1)); return p
        out.append(("multi_rules", mr))
    out.append(("predicate", lambda: (lambda s: s[0] <= 1 and sum(s) >= 1)))
    # a predicate written against the State it is documented to receive (photon count, comparison with a State)
    out.append(("predicate_state_api", lambda: (lambda s: s.n_photons >= 1 and s != lw.State([1] + [0] * (nv - 1)))))
    # a predicate whose answers are truthy/falsy values, not bools (and/or return an operand)
    out.append(("predicate_truthy", lambda: (lambda s: s[0] and (sum(s) - s[0] + 1))))
    if nv >= 3:
        def far():
            p = lw.PostSelection(); p.add((0, nv - 1), (0, 1)); return p
        out.append(("rule((0,last):(0,1))", far))
    return out


def validate(ps, vis):
    if ps is None:
        return True
    if callable(ps) and not hasattr(ps, "validate"):
        return bool(ps(lw.State(list(vis))))
    if hasattr(ps, "rules"):          # the stated meaning of a rule set, not the library's evaluation of it
        return all(sum(vis[m] for m in modes) in counts for modes, counts in (r.as_tuple() for r in ps.rules))
    return bool(ps.validate(lw.State(list(vis))))


def check_circuit(recipe, env, maxph, acc):
    c, _ = build(recipe, env)
    nv = c.input_modes
    h = c.heralds
    hin, hout = h["input"], h["output"]
    hmodes = sorted(hout)
    uf = c.U_full
    n_loss = uf.shape[0] - c.n_modes
    base = {"recipe": recipe, "seed": env.seed}
    name = recipe["name"]
    acc.state(name)
    for k in range(0, maxph + 1):         # k = 0: vacuum on the visible modes (herald photons may still be present)
        ins = ref_fock.basis(nv, k)
        n_inj = k + sum(hin.values())
        K = math.comb(uf.shape[0] + n_inj - 1, n_inj)       # size of the full Fock space
        tol = K * THR + EPS
        samp = {}
        for i in ins:
            acc.tick("executions")
            d = emu.Sampler(c, lw.State(list(i))).probability_distribution
            samp[i] = {tuple(s.s): float(p) for s, p in d.items()}
        # ---- squared simulator amplitudes == sampler probabilities (lossless)
        if n_loss == 0:
            acc.tick("executions")
            res = emu.Simulator(c).simulate([lw.State(list(i)) for i in ins])
            for a, i in enumerate(ins):
                for b, o in enumerate(res.outputs):
                    full = ref_fock.add_heralds(tuple(o.s), hout)
                    if abs(abs(res.array[a, b]) ** 2 - samp[i].get(full, 0.0)) > tol:
                        acc.violation("simulator_vs_sampler", {**base, "input": i, "output": tuple(o.s)},
                                      {"amp2": abs(res.array[a, b]) ** 2, "sampler": samp[i].get(full, 0.0)})
                        break
        out_space = ref_fock.basis(nv, k) if n_loss == 0 else ref_fock.basis_upto(nv, k)
        for plabel, pfac in post_selections(nv):
            ps = pfac()
            case0 = {**base, "photons": k, "post_selection": plabel}
            want_outputs = [o for o in out_space if validate(ps, o)]
            # accepted sampler probabilities per input: heralds satisfied and post-selection passed
            accepted = {}
            for i in ins:
                acc_i = {}
                for full, p in samp[i].items():
                    if all(full[m] == n for m, n in hout.items()):
                        vis = ref_fock.remove_modes(full, hmodes)
                        if validate(ps, vis):
                            acc_i[vis] = acc_i.get(vis, 0.0) + p
                accepted[i] = acc_i
            # ---- Analyzer
            in_sets = [[i] for i in ins] + [list(p) for p in itertools.combinations(ins, 2)] + [list(ins)]
            if not want_outputs:
                acc.tick("skipped_empty_post_selection")
                in_sets = []
            for iset in in_sets:
                case = {**case0, "inputs": iset}
                acc.tick("executions"); acc.tick("transitions")
                an = emu.Analyzer(c)
                an.post_selection = pfac()
                exp_single = {lw.State(list(i)): lw.State(list(want_outputs[0])) for i in iset}
                try:
                    r0 = an.analyze([lw.State(list(i)) for i in iset] if len(iset) > 1 else lw.State(list(iset[0])))
                except Exception as e:  # noqa: BLE001
                    acc.violation("analyzer_refuses_circuit", case, {"error": repr(e)})
                    break
                outs = [tuple(o.s) for o in r0.outputs]
                if sorted(outs) != sorted(want_outputs):
                    acc.violation("analyzer_output_set", case, {"impl": outs, "expected": want_outputs})
                    break
                want = np.array([[accepted[i].get(o, 0.0) for o in outs] for i in iset])
                if r0.array.shape != want.shape or np.abs(r0.array - want).max() > tol:
                    acc.violation("analyzer_vs_sampler", case,
                                  {"max_err": float(np.abs(r0.array - want).max()) if r0.array.shape == want.shape else None})
                    break
                perf = want.sum() / len(iset)
                if abs(r0.performance - perf) > tol * len(outs) or abs(an.performance - perf) > tol * len(outs):
                    acc.violation("analyzer_performance", case, {"impl": r0.performance, "ref": perf})
                    break
                if hasattr(r0, "error_rate"):
                    acc.violation("error_rate_without_expected", case, None)
                    break
                if len(iset) > 2 or want.sum(axis=1).min() < 1e-6:
                    continue
                # expected maps: single state / list / a state that is not among the outputs
                exp_list = {lw.State(list(i)): [lw.State(list(o)) for o in want_outputs[:2]] for i in iset}
                alien = lw.State([k + 1] + [0] * (nv - 1))
                exp_alien = {lw.State(list(i)): [alien, lw.State(list(want_outputs[-1]))] for i in iset}
                exp_dup = {lw.State(list(i)): [lw.State(list(want_outputs[0])), lw.State(list(want_outputs[-1])),
                                               lw.State(list(want_outputs[0]))] for i in iset}      # a state named twice
                maps = [("single", exp_single), ("list", exp_list), ("alien", exp_alien), ("repeated", exp_dup)]
                # a different expectation per input, written in another order than the inputs, with an entry for an
                # input that is not analysed (a complete truth table handed over with a subset of the inputs)
                others = [i for i in ins if i not in iset]
                exp_tt = {}
                if others:
                    exp_tt[lw.State(list(others[0]))] = lw.State(list(want_outputs[0]))
                for a, i in reversed(list(enumerate(iset))):
                    exp_tt[lw.State(list(i))] = lw.State(list(want_outputs[-1 if a == 0 else 0]))
                if len(iset) == 2 or others:
                    maps.append(("truth_table_other_order", exp_tt))
                for elabel, emap in maps:
                    acc.tick("executions"); acc.tick("transitions")
                    r1 = emu.Analyzer(c)
                    r1.post_selection = pfac()
                    rr = r1.analyze([lw.State(list(i)) for i in iset], expected=emap)
                    errs = []
                    for a, i in enumerate(iset):
                        e = emap[lw.State(list(i))]
                        e = [e] if isinstance(e, lw.State) else e
                        good = sum(want[a, outs.index(t)] for t in {tuple(x.s) for x in e} if t in outs)
                        errs.append(1 - good / want[a].sum())
                    if rr.array.shape != want.shape or np.abs(rr.array - want).max() > tol \
                            or abs(rr.performance - perf) > tol * len(outs):
                        acc.violation("analyzer_vs_sampler", {**case, "expected": elabel, "with_expected": True},
                                      {"max_err": float(np.abs(rr.array - want).max()) if rr.array.shape == want.shape else None,
                                       "performance": rr.performance, "ref_performance": perf})
                        break
                    if abs(rr.error_rate - float(np.mean(errs))) > 1e-7:
                        acc.violation("analyzer_error_rate", {**case, "expected": elabel},
                                      {"impl": rr.error_rate, "ref": float(np.mean(errs))})
                        break
            # ---- QuickSampler
            for i in ins:
                for pc in (True, False):
                    case = {**case0, "input": i, "photon_counting": pc}
                    cond = {o: p for o, p in accepted[i].items()
                            if sum(o) == k and (pc or max(o) <= 1)}
                    tot = sum(cond.values())
                    acc.tick("executions"); acc.tick("transitions")
                    try:
                        q = emu.QuickSampler(c, lw.State(list(i)), photon_counting=pc, post_select=pfac())
                        qd = {tuple(s.s): float(p) for s, p in q.probability_distribution.items()}
                    except Exception as e:  # noqa: BLE001
                        if tot > 1e-6:
                            acc.violation("quick_sampler_refuses", case, {"error": repr(e), "accepted_total": tot})
                        else:
                            acc.tick("quick_sampler_refused_empty")
                        continue
                    if tot <= 1e-6:
                        acc.tick("skipped_tiny_norm")
                        continue
                    qt = (4 * K * THR + 1e-10) / tot
                    for o in set(qd) | set(cond):
                        if abs(qd.get(o, 0.0) - cond.get(o, 0.0) / tot) > qt:
                            acc.violation("quick_sampler_vs_sampler", {**case},
                                          {"output": o, "impl": qd.get(o, 0.0), "ref": cond.get(o, 0.0) / tot})
                            break
                    if len(cond) > 1:
                        acc.nontriv(name, k, plabel, i, pc)
            acc.outcome("%s:loss=%d:heralds=%s" % (plabel, min(n_loss, 1), sorted(hin.values())))
    acc.sample({"recipe": name, "ops": recipe["ops"], "post_selections": [p[0] for p in post_selections(nv)]}, limit=2)


def check_coarse_threshold(recipe, env, acc, thr=0.04):
    """The same relation under a user-chosen (coarse) global truncation threshold: both objects read the live setting,
    so for a lossless circuit the QuickSampler still equals the Sampler conditioned on the heralds, renormalised."""
    c, _ = build(recipe, env)
    if c.U_full.shape[0] != c.n_modes:
        return
    nv = c.input_modes
    hout = c.heralds["output"]
    hmodes = sorted(hout)
    old = lw.settings.sampler_probability_threshold
    lw.settings.sampler_probability_threshold = thr
    try:
        for i in ref_fock.basis(nv, 2):
            d = emu.Sampler(c, lw.State(list(i))).probability_distribution
            for pc in (True, False):
                case = {"scenario": "coarse_threshold", "recipe": recipe, "input": i, "photon_counting": pc,
                        "threshold": thr, "seed": env.seed}
                acc.tick("executions"); acc.tick("transitions")
                cond = {}
                for st, p in d.items():
                    full = tuple(st.s)
                    if all(full[m] == n for m, n in hout.items()):
                        vis = ref_fock.remove_modes(full, hmodes)
                        if sum(vis) == 2 and (pc or max(vis) <= 1):
                            cond[vis] = cond.get(vis, 0.0) + float(p)
                tot = sum(cond.values())
                try:
                    qd = {tuple(s_.s): float(p) for s_, p in
                          emu.QuickSampler(c, lw.State(list(i)), photon_counting=pc).probability_distribution.items()}
                except Exception as e:  # noqa: BLE001
                    if tot > 1e-6:
                        acc.violation("quick_sampler_refuses", case, {"error": repr(e), "accepted_total": tot})
                    continue
                if tot <= 1e-6:
                    continue
                for o in set(qd) | set(cond):
                    if abs(qd.get(o, 0.0) - cond.get(o, 0.0) / tot) > 1e-8:
                        acc.violation("quick_sampler_vs_sampler", case,
                                      {"output": o, "impl": qd.get(o, 0.0), "ref": cond.get(o, 0.0) / tot})
                        break
                acc.state("coarse", recipe["name"], i, pc)
                if len(cond) < len([1 for st in d]) and len(cond) > 1:
                    acc.nontriv("coarse", recipe["name"], i, pc)
    finally:
        lw.settings.sampler_probability_threshold = old


def run(tier, seed):
    env = Env(seed)
    fam = emulator_family(env, tier)
    if tier == "quick":
        fam = [f for f in fam if f["n"] <= 3 or "sub" in f["name"]]
    maxph = {2: 2, 3: 2, 4: 2} if tier == "quick" else {2: 3, 3: 3, 4: 2, 5: 2}

    def shard_fn(recipes):
        acc = kernel.Acc()
        for rc in recipes:
            check_circuit(rc, env, maxph[rc["n"]], acc)
            if rc["n"] >= 3:
                check_coarse_threshold(rc, env, acc)
        return acc

    acc = kernel.pmap(shard_fn, kernel.interleave(fam, kernel.NPROC * 3))
    meta = {
        "rule": "every circuit recipe x photon number 1..2 x 6 post-selection objects (rule, multi-mode rule with count "
                "tuple, two rules, multi_rules, predicate, none) x input sets {every single input, every pair, full "
                "basis} x expected maps {single, list, state not among outputs} x QuickSampler detector mode; relations: "
                "Analyzer array == Sampler probability of the heralded output, performance == mean accepted total, "
                "error_rate == 1 - mean(expected&accepted/accepted), QuickSampler == Sampler conditioned and "
                "renormalised, |Simulator|^2 == Sampler (lossless); none may refuse a circuit the others accept. "
                "Lossless circuits on >= 3 modes again with settings.sampler_probability_threshold = 0.04. "
                "distinct_nontrivial = QuickSampler configurations whose conditioned support has > 1 state.",
        "exhaustive": True,
        "bounds": {"circuits": len(fam), "max_visible_photons": maxph},
        "assumptions": ["all-rejecting post-selections are outside the alphabet (statement silent)"],
    }
    return acc, meta


def replay(w, acc):
    case = w["case"]
    if case.get("scenario") == "coarse_threshold":
        check_coarse_threshold(case["recipe"], Env(case.get("seed", 0)), acc, case.get("threshold", 0.04))
        return
    check_circuit(case["recipe"], Env(case.get("seed", 0)), 2, acc)
