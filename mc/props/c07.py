"""C07 — sampling draws from the exact detected, heralded, post-selected law (E3).

Every random source the sampling code consults is owned by the harness; all
answer sequences are enumerated with exact weights, which yields the exact law
the code implements. Nothing is sampled and no frequency is tested.
"""
from __future__ import annotations

import itertools
from unittest import mock

import numpy as np

import lightworks as lw
import lightworks.emulator.components.detector as detmod
import lightworks.emulator.simulation.quick_sampler as qsmod
import lightworks.emulator.simulation.sampler as sampmod
from lightworks import emulator as emu

from .. import kernel, ref_fock, ref_noise
from ..circuit_ops import Env, build

TOL = 1e-12


def circuits(env, tier="quick"):
    g = env.L[1]
    extra = [
        {"name": "u3_3ph", "n": 3, "ops": [("uni", 3, 0, False), ("loss", 0, g)], "input": (1, 1, 1)},
    ]
    if tier == "thorough":
        extra += [
            {"name": "u4_herald2", "n": 4, "ops": [("uni", 4, 0, False), ("her", 2, 3, 3), ("her", 0, 0, 1)],
             "input": (1, 0)},
            {"name": "u4_gaps", "n": 4, "ops": [("uni", 4, 0, False), ("loss", 2, g)], "input": (1, 0, 2, 0)},
        ]
    return extra + [
        {"name": "u3", "n": 3, "ops": [("uni", 3, 0, False)], "input": (1, 1, 0)},
        {"name": "u3_herald1", "n": 3, "ops": [("uni", 3, 0, False), ("her", 1, 2, 2)], "input": (1, 1)},
        {"name": "u3_lossy", "n": 3, "ops": [("uni", 3, 0, False), ("loss", 1, g), ("bs", 0, 1, env.R[1], "Rx", 0)],
         "input": (1, 1, 0)},
        {"name": "u2_bunch", "n": 2, "ops": [("uni", 2, 0, False)], "input": (2, 0)},
        {"name": "u3_lossy_herald1", "n": 3, "ops": [("uni", 3, 0, False), ("loss", 0, g), ("loss", 2, env.L2), ("her", 1, 2, 2)],
         "input": (1, 1)},
        {"name": "u3_herald_io", "n": 3, "ops": [("uni", 3, 0, False), ("her", 1, 0, 2, "np")], "input": (0, 1)},
        {"name": "sub_anc", "n": 2, "ops": [("add", "h3mid", 0, False), ("bs", 0, 1, env.R2, "H", 0)], "input": (1, 0)},
    ]


def detectors(env, tier):
    e, d = round(env.R[1], 3), round(env.L[1] / 3, 3)
    out = []
    for eff, pd in ((1, 0), (e, 0), (1, d), (e, d)):
        for pc in (True, False):
            out.append((eff, pd, pc))
    out += [(0, 0, True), (1, 1, False), (0.5, 0.5, True)]
    if tier == "thorough":
        e2, d2 = kernel.generic_reals(env.seed + 31, 2, 0.0, 1.0)
        out += [(e2, d2, True), (e2, d2, False), (0, d2, True), (e2, 1, True)]
    return out


def post_selections(nv):
    def rule():
        p = lw.PostSelection(); p.add(0, (1, 2)); return p
    out = [("none", lambda: None), ("rule(0:(1,2))", rule),
           ("predicate", lambda: (lambda s: s[nv - 1] == 0)),
           ("predicate_count", lambda: (lambda s: s[0]))]        # answers with a number (truthy / falsy), not a bool
    if nv >= 3:
        def far():       # one rule over two modes that are not neighbours
            p = lw.PostSelection(); p.add((0, nv - 1), (0, 1)); return p
        out.append(("rule((0,last):(0,1))", far))
    return out


def ps_ok(ps, vis):
    if ps is None:
        return True
    if hasattr(ps, "rules"):          # the stated meaning of a rule set, not the library's evaluation of it
        return all(sum(vis[m] for m in modes) in counts for modes, counts in (r.as_tuple() for r in ps.rules))
    if hasattr(ps, "validate"):
        return bool(ps.validate(lw.State(list(vis))))
    return bool(ps(lw.State(list(vis))))


class Patches:
    """Own every random source for the duration of one execution."""

    def __init__(self, oracle, log):
        self.o, self.log = oracle, log

    def __enter__(self):
        o, log = self.o, self.log
        self.ps = [
            mock.patch.object(np.random, "default_rng", lambda seed=None: kernel.FakeGenerator(o, log)),
            mock.patch.object(detmod, "random", lambda: kernel.Draw(o, "det")),
            mock.patch.object(detmod, "seed", lambda s=None: None),
            mock.patch.object(sampmod, "random", lambda: kernel.Draw(o, "samp")),
            mock.patch.object(qsmod, "random", lambda: kernel.Draw(o, "qs")),
        ]
        for p in self.ps:
            p.start()
        return self

    def __exit__(self, *a):
        for p in self.ps:
            p.stop()


def law(fn, acc, check_replay=False):
    """Exact outcome law of fn() over all answers of the owned random sources."""
    logs = []

    def run(o):
        log = []
        with Patches(o, log):
            out = fn()
        logs.append(log)
        return out

    d = {}
    n = 0
    for w, out, tr in kernel.all_paths(run, check_replay=check_replay):
        d[out] = d.get(out, 0.0) + w
        n += 1
    acc.tick("executions", n)
    acc.tick("transitions", n)
    acc.tick("paths", n)
    return d, logs


def result_key(r):
    return tuple(sorted((tuple(k.s), int(v)) for k, v in r.items()))


def compare_laws(kind, got, want, case, acc, tol=1e-10):
    for k in set(got) | set(want):
        if abs(got.get(k, 0.0) - want.get(k, 0.0)) > tol:
            acc.violation(kind, case, {"outcome": k, "impl": got.get(k, 0.0), "ref": want.get(k, 0.0)})
            return False
    return True


def check_config(rc, det, plabel, pfac, mind, env, acc, tier):
    eff, pdark, pc = det
    c, _ = build(rc, env)
    vin = rc["input"]
    nv = c.input_modes
    hout = c.heralds["output"]
    hmodes = sorted(hout)
    case = {"recipe": rc["name"], "n": rc["n"], "ops": rc["ops"], "input": vin, "detector": det,
            "post_selection": plabel, "min_detection": mind, "seed": env.seed}
    s = emu.Sampler(c, lw.State(list(vin)), detector=emu.Detector(efficiency=eff, p_dark=pdark, photon_counting=pc))
    pd = {tuple(k.s): float(v) for k, v in s.probability_distribution.items()}
    tot = sum(pd.values())
    pd = {k: v / tot for k, v in pd.items()}
    ps = pfac()

    def accept(full):
        """reference: herald test on the detected full state, removal, post-selection, min_detection"""
        if any(full[m] != n for m, n in hout.items()):
            return None
        vis = ref_fock.remove_modes(full, hmodes)
        if ps_ok(ps, vis) and sum(vis) >= mind:
            return vis
        return None

    if hout and max(hout.values()) > 1 and not pc:
        # documented refusal: threshold detectors cannot resolve a multi-photon herald
        for meth in (s.sample_N_inputs, s.sample_N_outputs):
            try:
                meth(1, post_select=pfac(), min_detection=mind, seed=1)
                acc.violation("threshold_detector_with_multiphoton_herald_accepted", case, {"method": meth.__name__})
            except emu.SamplerError:
                acc.tick("rejected_calls")
        return
    # ---- sample_N_inputs, N = 1: exact law incl. the empty result
    want = {}
    for st, p in pd.items():
        for o, q in ref_noise.detect(st, eff, pdark, pc).items():
            vis = accept(o)
            key = ((vis, 1),) if vis is not None else ()
            want[key] = want.get(key, 0.0) + p * q
    got, _ = law(lambda: result_key(s.sample_N_inputs(1, post_select=pfac(), min_detection=mind, seed=3)), acc,
                 check_replay=(tier == "thorough"))
    acc.state(rc["name"], det, plabel, mind)
    if abs(sum(got.values()) - 1) > 1e-10:
        acc.violation("path_weights_do_not_sum_to_one", case, {"sum": sum(got.values())})
    compare_laws("sample_N_inputs_law", got, want, case, acc)
    for key in got:
        for vis, cnt in key:
            if len(vis) != nv or not ps_ok(ps, vis) or sum(vis) < mind:
                acc.violation("returned_state_violates_selection", case, {"state": vis})
    if len(want) > 2:
        acc.nontriv(rc["name"], det, plabel, mind)
    acc.outcome("support=%d" % min(len(want), 12))

    # ---- sample_N_outputs (documented domain: unit efficiency, no dark counts)
    if pdark != 0:
        try:
            s.sample_N_outputs(1, post_select=pfac(), min_detection=mind, seed=1)
            acc.violation("N_outputs_accepts_dark_counts", case, None)
        except emu.SamplerError:
            acc.tick("rejected_calls")
    elif eff == 1:
        ref = {}
        for st, p in pd.items():
            o = tuple(min(x, 1) for x in st) if not pc else st
            vis = accept(o)
            if vis is not None:
                ref[vis] = ref.get(vis, 0.0) + p
        rt = sum(ref.values())
        if not ref:
            try:
                s.sample_N_outputs(1, post_select=pfac(), min_detection=mind, seed=1)
                acc.violation("N_outputs_all_rejected_but_returns", case, None)
            except emu.SamplerError:
                acc.tick("rejected_calls")
        else:
            ref = {k: v / rt for k, v in ref.items()}
            for N in ((1, 2) if len(ref) <= 6 else (1,)):
                got, logs = law(lambda: result_key(s.sample_N_outputs(N, post_select=pfac(),
                                                                     min_detection=mind, seed=3)), acc)
                # the (vals, p) handed to the generator *is* the law
                vals, p, size = logs[0][-1]
                handed = {}
                for v, q in zip(vals, p):
                    handed[tuple(v.s)] = handed.get(tuple(v.s), 0.0) + q
                compare_laws("sample_N_outputs_law", handed, ref, {**case, "N": N}, acc)
                if size != N:
                    acc.violation("N_outputs_wrong_size", {**case, "N": N}, {"size": size})
                for key, w in got.items():
                    if sum(cnt for _, cnt in key) != N:
                        acc.violation("N_outputs_not_exactly_N", {**case, "N": N}, {"result": key})
                # law of the counted result = multinomial of the handed law
                wantN = {}
                for combo in itertools.product(sorted(ref), repeat=N):
                    cnts = {}
                    w = 1.0
                    for x in combo:
                        cnts[x] = cnts.get(x, 0) + 1
                        w *= ref[x]
                    k = tuple(sorted(cnts.items()))
                    wantN[k] = wantN.get(k, 0.0) + w
                compare_laws("sample_N_outputs_counts", got, wantN, {**case, "N": N}, acc)
            acc.tick("executions")
            r7 = s.sample_N_outputs(7, post_select=pfac(), min_detection=mind, seed=5)
            if sum(r7.values()) != 7 or any(len(k) != nv for k in r7):
                acc.violation("N_outputs_not_exactly_N", {**case, "N": 7}, {"total": sum(r7.values())})

    # ---- Sampler.sample(): raw detected output (documented: no heralding/post-selection arguments)
    if plabel == "none" and mind == 0:
        want = {}
        for st, p in pd.items():
            for o, q in ref_noise.detect(st, eff, pdark, pc).items():
                want[o] = want.get(o, 0.0) + p * q
        got, _ = law(lambda: tuple(s.sample().s), acc)
        compare_laws("sample_law", got, want, case, acc)
        # measure-zero answers: concrete floats on / next to every threshold must not crash
        cds = list(s.continuous_distribution.values())
        for x in [0.0, np.nextafter(1.0, 0.0)] + cds[:-1] + [eff, pdark]:
            seq = itertools.repeat(float(x))
            with mock.patch.object(sampmod, "random", lambda: next(seq)), \
                    mock.patch.object(detmod, "random", lambda: next(seq)):
                try:
                    o = tuple(s.sample().s)
                    acc.tick("executions"); acc.tick("boundary_answers")
                except Exception as e:  # noqa: BLE001
                    acc.violation("sample_crashes_on_boundary_draw", {**case, "draw": float(x)}, {"error": repr(e)})
                    continue
            if len(o) != c.n_modes or min(o) < 0:
                acc.violation("sample_boundary_draw_bad_state", {**case, "draw": float(x)}, {"state": o})


def check_n2_independence(rc, det, env, acc):
    """Two clock cycles: the result law is the convolution of two N=1 laws (no state carried over)."""
    eff, pdark, pc = det
    c, _ = build(rc, env)
    s = emu.Sampler(c, lw.State(list(rc["input"])),
                    detector=emu.Detector(efficiency=eff, p_dark=pdark, photon_counting=pc))
    case = {"recipe": rc["name"], "n": rc["n"], "ops": rc["ops"], "input": rc["input"], "detector": det,
            "N": 2, "seed": env.seed}
    one, _ = law(lambda: result_key(s.sample_N_inputs(1, min_detection=1, seed=3)), acc)
    two, _ = law(lambda: result_key(s.sample_N_inputs(2, min_detection=1, seed=3)), acc)
    want = {}
    for (a, pa), (b, pb) in itertools.product(one.items(), repeat=2):
        cn = {}
        for k, v in a + b:
            cn[k] = cn.get(k, 0) + v
        key = tuple(sorted(cn.items()))
        want[key] = want.get(key, 0.0) + pa * pb
    compare_laws("N_inputs_cycles_not_independent", two, want, case, acc)


def check_detector_history(rc, env, acc, depth):
    """One long-lived Sampler whose detector is edited IN PLACE between sampling calls: after every history
    of edits/draws the exact law of sample_N_inputs(1) must be the reference law for the CURRENT settings."""
    e, d = round(env.R[1], 3), round(env.L[1] / 3, 3)
    alpha = [("efficiency", 1), ("efficiency", e), ("p_dark", 0), ("p_dark", d), ("photon_counting", True),
             ("photon_counting", False), ("draw",)]
    c, _ = build(rc, env)
    hout = c.heralds["output"]
    hmodes = sorted(hout)
    base = emu.Sampler(c, lw.State(list(rc["input"])))
    pd = {tuple(k.s): float(v) for k, v in base.probability_distribution.items()}
    tot = sum(pd.values())
    pd = {k: v / tot for k, v in pd.items()}
    ref_cache = {}

    def reference(eff, pdark, pc):
        key = (eff, pdark, pc)
        if key not in ref_cache:
            want = {}
            for st, p in pd.items():
                for o, q in ref_noise.detect(st, eff, pdark, pc).items():
                    if any(o[m] != n for m, n in hout.items()):
                        k = ()
                    else:
                        k = ((ref_fock.remove_modes(o, hmodes), 1),)
                    want[k] = want.get(k, 0.0) + p * q
            ref_cache[key] = want
        return ref_cache[key]

    for dd in range(1, depth + 1):
        for hist in itertools.product(alpha, repeat=dd):
            if hist[-1][0] == "draw" or not any(h[0] == "draw" for h in hist):
                continue                                   # interesting: a draw happened, then an in-place edit
            det = emu.Detector()
            s = emu.Sampler(c, lw.State(list(rc["input"])), detector=det)
            for op in hist:
                if op[0] == "draw":
                    s.sample_N_inputs(3, seed=1); s.sample()
                else:
                    setattr(det, op[0], op[1])
            if max(hout.values(), default=0) > 1 and not det.photon_counting:
                continue
            got, _ = law(lambda: result_key(s.sample_N_inputs(1, seed=3)), acc)
            case = {"scenario": "detector_history", "recipe": rc["name"], "n": rc["n"], "ops": rc["ops"],
                    "input": rc["input"], "history": hist, "seed": env.seed}
            compare_laws("law_after_in_place_detector_edit", got,
                         reference(det.efficiency, det.p_dark, det.photon_counting), case, acc)
            acc.state("dethist", rc["name"], det.efficiency, det.p_dark, det.photon_counting, hist[-1])
            acc.nontriv("dethist", rc["name"], hist)


def check_quick_sampler(rc, pc, plabel, pfac, env, acc):
    c, _ = build(rc, env)
    nv = c.input_modes
    case = {"recipe": rc["name"], "n": rc["n"], "ops": rc["ops"], "input": rc["input"], "photon_counting": pc,
            "post_selection": plabel, "object": "QuickSampler", "seed": env.seed}
    try:
        q = emu.QuickSampler(c, lw.State(list(rc["input"])), photon_counting=pc, post_select=pfac())
        pd = {tuple(k.s): float(v) for k, v in q.probability_distribution.items()}
    except Exception:  # noqa: BLE001  (empty selection: outside the alphabet, C05 decides refusals)
        acc.tick("quick_sampler_empty")
        return
    ps = pfac()
    for N in (1, 2):
        got, logs = law(lambda: result_key(q.sample_N_outputs(N, seed=2)), acc)
        vals, p, size = logs[0][-1]
        if all(hasattr(v, "s") for v in vals):         # the population handed to the generator, when it is the states
            handed = {}
            for v, x in zip(vals, p):
                handed[tuple(v.s)] = handed.get(tuple(v.s), 0.0) + x
            compare_laws("quick_N_outputs_law", handed, pd, {**case, "N": N}, acc, tol=1e-12)
        # the law of the returned counts: N independent draws from the distribution (however they are generated)
        want_law = {}
        for seq in itertools.product(sorted(pd), repeat=N):
            cnt = {}
            for st in seq:
                cnt[st] = cnt.get(st, 0) + 1
            key = tuple(sorted(cnt.items()))
            want_law[key] = want_law.get(key, 0.0) + float(np.prod([pd[st] for st in seq]))
        compare_laws("quick_N_outputs_counts_law", got, want_law, {**case, "N": N}, acc, tol=1e-9)
        for key in got:
            if sum(cnt for _, cnt in key) != N:
                acc.violation("N_outputs_not_exactly_N", {**case, "N": N}, {"result": key})
            for vis, _ in key:
                if len(vis) != nv or not ps_ok(ps, vis) or (not pc and max(vis) > 1):
                    acc.violation("returned_state_violates_selection", case, {"state": vis})
    got, _ = law(lambda: tuple(q.sample().s), acc)
    compare_laws("quick_sample_law", got, pd, case, acc)
    acc.state("qs", rc["name"], pc, plabel)


def check_seeds(rc, env, acc):
    """Seed reproducibility with the real generators."""
    c, _ = build(rc, env)
    det = emu.Detector(efficiency=0.8, p_dark=0.05)
    s = emu.Sampler(c, lw.State(list(rc["input"])), detector=det)
    s0 = emu.Sampler(c, lw.State(list(rc["input"])))
    q = emu.QuickSampler(c, lw.State(list(rc["input"])))
    for label, fn in (("sample_N_inputs", lambda N, sd: s.sample_N_inputs(N, seed=sd)),
                      ("sample_N_outputs", lambda N, sd: s0.sample_N_outputs(N, seed=sd)),
                      ("quick_sample_N_outputs", lambda N, sd: q.sample_N_outputs(N, seed=sd))):
        for N in (1, 5, 50):
            seen = []
            for sd in (0, 1, 7, 2 ** 31 - 1):
                a, b = result_key(fn(N, sd)), result_key(fn(N, sd))
                acc.tick("executions", 2); acc.tick("seed_runs", 2)
                if a != b:
                    acc.violation("seed_not_reproducible", {"recipe": rc["name"], "n": rc["n"], "ops": rc["ops"],
                                                            "method": label, "N": N, "seed_value": sd,
                                                            "seed": env.seed}, {"first": a, "second": b})
                seen.append(a)
            # the same seed given as a numpy integer is the same seed
            try:
                acc.tick("executions"); acc.tick("seed_runs")
                if result_key(fn(N, np.int64(7))) != seen[2]:
                    acc.violation("seed_not_reproducible", {"recipe": rc["name"], "n": rc["n"], "ops": rc["ops"],
                                                            "method": label, "N": N, "seed_value": "np.int64(7)",
                                                            "seed": env.seed}, None)
            except Exception as e:  # noqa: BLE001
                acc.violation("integer_seed_refused", {"recipe": rc["name"], "n": rc["n"], "ops": rc["ops"], "method": label,
                                                       "N": N, "seed_value": "np.int64(7)", "seed": env.seed},
                              {"error": repr(e)})
            if N == 50 and len(set(seen)) == 1:
                acc.tick("seeds_all_identical_N50")      # non-vacuity indicator, not a property clause


def run(tier, seed):
    env = Env(seed)
    circs = circuits(env, tier)
    by = {c["name"]: c for c in circs}
    dets = detectors(env, tier)
    jobs = []
    for rc in circs:
        c, _ = build(rc, env)
        for det in dets:
            for plabel, pfac in post_selections(c.input_modes):
                for mind in (0, 1, 2):
                    jobs.append(("cfg", rc, det, plabel, mind))
        for pc in (True, False):
            for plabel, pfac in post_selections(c.input_modes):
                jobs.append(("qs", rc, pc, plabel))
        jobs.append(("seeds", rc))
    weak = [{"name": "weak3", "n": 3, "ops": [("bs", 0, 1, 0.999, "Rx", 0), ("bs", 1, 2, 0.9992, "H", 0), ("ps", 0, env.PH[0], 0)],
             "input": (1, 1, 0)},
            {"name": "weak3_herald", "n": 3, "ops": [("bs", 0, 1, 0.9985, "Rx", 0), ("bs", 2, 1, 0.9991, "Rx", 0), ("her", 1, 2, 2)],
             "input": (1, 1)}]
    for rc in weak:
        for det in (dets[0], dets[6], dets[3]):
            jobs.append(("truncated", rc, det))
    jobs.append(("dethist", by["u3_herald1"], 3))
    jobs.append(("dethist", by["u2_bunch"], 3 if tier == "quick" else 4))
    # two clock cycles: path count is the square of the N=1 count, so the richest detector only on the
    # smallest circuits
    for rc in (by["u2_bunch"], by["u3_herald1"]) if tier == "quick" else [c for c in circs if sum(c["input"]) <= 2]:
        jobs.append(("n2", rc, dets[2]))
    for rc in (by["u2_bunch"],) if tier == "quick" else (by["u2_bunch"], by["sub_anc"], by["u3_herald_io"]):
        jobs.append(("n2", rc, dets[7]))
    jobs.sort(key=lambda j: 0 if j[0] in ("n2", "dethist") else 1)     # heavy jobs first, one per shard

    def shard_fn(js):
        acc = kernel.Acc()
        for j in js:
            rc = j[1]
            c, _ = build(rc, env)
            pmap_ = dict(post_selections(c.input_modes))
            if j[0] == "cfg":
                check_config(rc, j[2], j[3], pmap_[j[3]], j[4], env, acc, tier)
            elif j[0] == "qs":
                check_quick_sampler(rc, j[2], j[3], pmap_[j[3]], env, acc)
            elif j[0] == "seeds":
                check_seeds(rc, env, acc)
            elif j[0] == "dethist":
                check_detector_history(rc, env, acc, j[2])
            elif j[0] == "truncated":
                # a coarser (documented, global) truncation setting makes the distribution sum to less than one, which
                # sends sample_N_inputs through its renormalisation path; the law must be that of the renormalised one
                old = lw.settings.sampler_probability_threshold
                lw.settings.sampler_probability_threshold = 2e-3
                try:
                    c0, _ = build(rc, env)
                    tot0 = sum(emu.Sampler(c0, lw.State(list(rc["input"]))).probability_distribution.values())
                    if abs(tot0 - 1) > 1e-6:
                        acc.tick("truncated_unnormalised_distributions")
                    check_config(rc, j[2], "none", pmap_["none"], 0, env, acc, tier)
                    check_config(rc, j[2], "rule(0:(1,2))", pmap_["rule(0:(1,2))"], 1, env, acc, tier)
                finally:
                    lw.settings.sampler_probability_threshold = old
            else:
                check_n2_independence(rc, j[2], env, acc)
        if js and js[0][0] == "cfg":
            acc.sample({"circuit": js[0][1]["name"], "detector(eff,p_dark,counting)": js[0][2],
                        "post_selection": js[0][3], "min_detection": js[0][4],
                        "explored": "every answer of rng.choice and of every random() comparison"}, limit=1)
        return acc

    acc = kernel.pmap(shard_fn, kernel.interleave(jobs, kernel.NPROC * 4))
    meta = {
        "rule": "6 circuits (lossless, heralded in=out and in!=out, lossy, bunched input, internal ancilla) x 8 "
                "detectors (efficiency/p_dark/threshold combinations) x 3 post-selections x min_detection 0..2; for each, "
                "every answer sequence of every owned random source (rng.choice; lazy comparison-only random() draws) "
                "is executed with its exact weight; the resulting law is compared with RefDetector applied to the "
                "sampler's distribution, then heralding, herald removal, post-selection and min_detection. "
                "sample_N_outputs: the (vals,p) handed to the generator is compared directly and the counted result "
                "law with the multinomial; N=2 cycles independent; boundary draws with concrete floats; seed "
                "reproducibility with the real generators. distinct_nontrivial = configurations whose outcome law has "
                "more than two outcomes.",
        "exhaustive": True,
        "bounds": {"configurations": len(jobs), "N_inputs": [1, 2], "N_outputs": [1, 2, 7]},
        "assumptions": ["numpy Generator.choice draws i.i.d. from p; random.random() is uniform on [0,1)",
                        "the code only compares its random draws (enforced: any other use raises DrawMisuse)",
                        "frequencies converge follows from the exact law plus i.i.d. draws; it is not observed"],
    }
    return acc, meta


def replay(w, acc):
    from .c01 import _tup
    case = w["case"]
    env = Env(case.get("seed", 0))
    rc = {"name": case["recipe"], "n": case["n"], "ops": [_tup(o) for o in case["ops"]], "input": tuple(case["input"])}
    c, _ = build(rc, env)
    pm = dict(post_selections(c.input_modes))
    if case.get("scenario") == "detector_history":
        check_detector_history(rc, env, acc, len(case["history"]))
        return
    if case.get("object") == "QuickSampler":
        check_quick_sampler(rc, case["photon_counting"], case["post_selection"], pm[case["post_selection"]], env, acc)
    elif "method" in case:
        check_seeds(rc, env, acc)
    elif case.get("N") == 2 and "post_selection" not in case:
        check_n2_independence(rc, tuple(case["detector"]), env, acc)
    else:
        check_config(rc, tuple(case["detector"]), case["post_selection"], pm[case["post_selection"]],
                     case["min_detection"], env, acc, "quick")
