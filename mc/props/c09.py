"""C09 — circuit rewrites preserve the transformation (E1: every constructible
circuit of the rich alphabet x every rewrite sequence up to a length bound)."""
from __future__ import annotations

import itertools

import numpy as np

import lightworks as lw

from .. import kernel
from ..circuit_ops import Env, construct, full_fingerprint, rich_alphabet
from ..props.c02 import make_sub

REWRITES = ["unpack", "compress", "remove_nonadj", "copy", "freeze"]


def spec_len(spec):
    return len(spec)


def has_group(spec):
    return any(type(s).__name__ == "Group" for s in spec)


def nonadj_bs(spec):
    for s in spec:
        nm = type(s).__name__
        if nm == "BeamSplitter" and abs(s.mode_1 - s.mode_2) != 1:
            return True
        if nm == "Group" and nonadj_bs(s.circuit_spec):
            return True
    return False


def observe(c):
    uf = c.U_full
    h = c.heralds
    return uf, tuple(h["input"].items()), tuple(h["output"].items()), c.input_modes, c.n_modes


def same(a, b):
    return (a[0].shape == b[0].shape and np.allclose(a[0], b[0], atol=1e-10, rtol=0) and a[1:] == b[1:])


def mutate(c, env):
    """A battery of in-place edits through the public API (no Parameter changes)."""
    c.bs(0, 1, reflectivity=0.123)
    c.ps(0, 0.456)
    try:
        c.add(make_sub("h3mid", env)[0], 0)
    except lw.ModeRangeError:
        pass
    free = [m for m in range(c.n_modes - len(c._internal_modes))]
    for m in free:
        try:
            c.herald(1, m, m)
            break
        except (ValueError, lw.ModeRangeError):
            continue
    c.mode_swaps({0: 1, 1: 0})
    c.unpack_groups()


def run_case(n, prog, seq, env, acc):
    case = {"n": n, "prog": prog, "rewrites": seq, "seed": env.seed}
    orig, params, applied = construct(n, prog, env)
    work, _, _ = construct(n, prog, env)           # an independent twin to be rewritten
    # twin shares no Parameter with orig; give it the same values (fresh objects, equal values)
    try:
        ref = observe(orig)
    except lw.CircuitCompilationError:
        acc.tick("uncompilable_skipped")
        return
    live = [work]
    for step, rw in enumerate(seq):
        before_len = spec_len(work._get_circuit_spec())
        src_fp = full_fingerprint(work)
        if rw == "unpack":
            work.unpack_groups()
        elif rw == "compress":
            work.compress_mode_swaps()
        elif rw == "remove_nonadj":
            work.remove_non_adjacent_bs()
        elif rw == "copy":
            new = work.copy()
            if full_fingerprint(work) != src_fp:
                acc.violation("copy_changed_source", {**case, "step": step}, None)
            work = new
            live.append(work)
        elif rw == "freeze":
            new = work.copy(freeze_parameters=True)
            if full_fingerprint(work) != src_fp:
                acc.violation("copy_changed_source", {**case, "step": step}, None)
            work = new
            live.append(work)
            if work.get_all_params():
                acc.violation("frozen_copy_lists_parameters", {**case, "step": step}, None)
        try:
            got = observe(work)
        except lw.CircuitCompilationError as e:
            acc.violation("rewrite_breaks_compilation", {**case, "step": step}, {"error": repr(e.__cause__)})
            return
        if not same(got, ref):
            d = {"heralds": [got[1], ref[1]], "input_modes": [got[3], ref[3]], "n_modes": [got[4], ref[4]]}
            if got[0].shape == ref[0].shape:
                d["max_err"] = float(np.abs(got[0] - ref[0]).max())
            acc.violation("rewrite_changed_transformation", {**case, "step": step, "rewrite": rw}, d)
            return
        spec = work._get_circuit_spec()
        if rw == "unpack" and has_group(spec):
            acc.violation("group_remains_after_unpack", {**case, "step": step}, None)
        if rw == "remove_nonadj" and nonadj_bs(spec):
            acc.violation("nonadjacent_bs_remains", {**case, "step": step}, None)
        if rw == "compress" and spec_len(spec) > before_len:
            acc.violation("compression_grew_circuit", {**case, "step": step},
                          {"before": before_len, "after": spec_len(spec)})
    acc.state(np.round(ref[0], 9), ref[1], ref[2], tuple(seq))
    if applied >= 2:
        acc.nontriv(np.round(ref[0], 9), ref[1], tuple(seq))
    # ---- behavioural independence of every object produced along the way
    if len(live) > 1 or seq:
        twin_fp = full_fingerprint(orig)
        for i, x in enumerate(live):
            others = [(j, full_fingerprint(y)) for j, y in enumerate(live) if j != i]
            try:
                mutate(x, env)
            except Exception as e:  # noqa: BLE001
                acc.violation("rewritten_object_not_editable", {**case, "object": i}, {"error": repr(e)})
                return
            for j, fp in others:
                if full_fingerprint(live[j]) != fp:
                    acc.violation("objects_share_mutable_structure", {**case, "edited": i, "changed": j}, None)
                    return
        if full_fingerprint(orig) != twin_fp:
            acc.violation("harness_twin_changed", case, None)
    acc.outcome("ok:" + ",".join(seq))


def swap_alphabet(n, env):
    """Focused alphabet for swap compression: swaps that overlap in every way + one blocker per kind."""
    sw = [((0, 1), (1, 0)), ((1, 2), (2, 1)), ((2, 3), (3, 2)), ((3, 4), (4, 3)), ((0, 4), (4, 0)),
          ((1, 2), (2, 3), (3, 1)), ((2, 4), (4, 2)), ((0, 1), (1, 2), (2, 0))]
    ops = [("sw", s_) for s_ in sw if max(max(p_) for p_ in s_) < n]
    ops.append(("sw", ()))          # the empty dictionary: what a cancelled pair of swaps leaves behind
    ops += [("bs", 0, 1, env.R2, "Rx", 0), ("bs", 3, 1, env.R[1], "H", 0), ("ps", n - 1, env.PH[0], 0), ("loss", 2, env.L[1]),
            ("uni", 2, 1, False), ("add", "bs2", n - 2, True), ("bar", None),
            ("add", "h3mid", n - 2, False), ("add", "h3io", 1, False)]
    return ops


def run(tier, seed):
    env = Env(seed)
    n = 4
    alpha = rich_alphabet(n, env)
    depth = 2 if tier == "quick" else 3
    maxseq = 2 if tier == "quick" else 3
    seqs = [s for k in range(1, maxseq + 1) for s in itertools.product(REWRITES, repeat=k)]
    if tier == "thorough":
        # depth-3 programs with all length<=2 sequences + depth-2 programs with all length-3 sequences
        seqs2 = [s for s in seqs if len(s) == 1] + [("unpack", "compress"), ("remove_nonadj", "compress"),
                                                    ("compress", "remove_nonadj"), ("copy", "unpack"),
                                                    ("freeze", "compress")]
    alpha_t = alpha if tier == "quick" else [a for a in alpha if not (a[0] == "add" and a[3] is True and a[1] in ("bs2", "grp"))]

    def shard_fn(firsts):
        acc = kernel.Acc()
        seen = set()
        for prog in kernel.programs(alpha, 2, first=firsts):
            for seq in seqs:
                acc.tick("executions"); acc.tick("transitions", len(seq))
                run_case(n, prog, seq, env, acc)
        if tier == "thorough":
            for prog in kernel.programs(alpha_t, 3, first=[f for f in firsts if f in alpha_t]):
                if len(prog) < 3:
                    continue
                for seq in seqs2:
                    acc.tick("executions"); acc.tick("transitions", len(seq))
                    run_case(n, prog, seq, env, acc)
        if firsts:
            acc.sample({"n": n, "prog": [firsts[0], alpha[3]], "rewrites": ["compress", "remove_nonadj"]}, limit=1)
        return acc

    acc = kernel.pmap(shard_fn, kernel.interleave(alpha, kernel.NPROC * 4))
    # ---- stage 2: swap compression needs several swaps separated by blockers: deeper programs over a
    # focused alphabet (5 modes), rewrites that involve compression
    n2 = 5
    alpha2 = swap_alphabet(n2, env)
    d2 = 4 if tier == "quick" else 5
    seqs2c = [("compress",), ("compress", "compress"), ("unpack", "compress"), ("compress", "remove_nonadj"),
              ("copy", "compress")]

    def shard2(prefixes):
        a = kernel.Acc()
        for pre in prefixes:
            for d in range(0, d2 - 1):
                for rest in itertools.product(alpha2, repeat=d):
                    prog = pre + rest
                    nsw = sum(1 for o in prog if o[0] == "sw")
                    nher = sum(1 for o in prog if o[0] == "add" and o[1] != "bs2")
                    if nsw < 2 or (tier == "quick" and len(prog) == d2 and nsw < 3 and not (nher == 1 and prog[-1][0] == "add")):
                        continue
                    for seq in (seqs2c[:1] + seqs2c[2:3] + (seqs2c[1:2] if nsw >= 3 else []) if tier == "quick" else seqs2c):
                        a.tick("executions"); a.tick("transitions", len(seq)); a.tick("stage2_cases")
                        run_case(n2, prog, seq, env, a)
        return a

    # sharded by the first two operations (programs shorter than 2 hold fewer than 2 swaps and are not cases)
    pairs = list(itertools.product(alpha2, repeat=2))
    acc.merge(kernel.pmap(shard2, kernel.interleave(pairs, kernel.NPROC * 6)))
    meta = {
        "rule": "every program of length <= depth over the rich alphabet (heralded/plain/grouped/lossy sub-circuits at "
                "every placement, reversed and non-adjacent beam splitters in both conventions, loss, 3-cycles, unitary "
                "blocks grouped or not, barriers, parent heralds, Parameters on bs/ps/loss) x every sequence of rewrites "
                "{unpack_groups, compress_mode_swaps, remove_non_adjacent_bs, copy, copy(freeze)} up to the length "
                "bound; stage 2: every program of length <= 0 over a focused swap alphabet (8 overlapping swap "
                "dictionaries + one blocker of each kind, 5 modes) with >= 2 swaps x 5 compression sequences; after "
                "every step U_full/heralds/input size equal the untouched twin, structural "
                "post-conditions hold, and editing any produced object leaves all others' full fingerprints unchanged. "
                "distinct_nontrivial = distinct (U_full, heralds, rewrite sequence) with >= 2 applied components.",
        "exhaustive": True,
        "bounds": {"n": n, "alphabet": len(alpha), "program_depth": depth, "rewrite_sequences": len(seqs),
                   "max_rewrite_length": maxseq},
        "assumptions": ["legality of construction calls is taken from the implementation here (decided in C01/C02)"],
    }
    return acc, meta


def replay(w, acc):
    from .c01 import _tup
    case = w["case"]
    run_case(case["n"], tuple(_tup(o) for o in case["prog"]), tuple(case["rewrites"]), Env(case.get("seed", 0)), acc)
