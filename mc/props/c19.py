"""C19 — any constructible circuit can be displayed, without side effects (E1
over the rich construction alphabet x display options)."""
from __future__ import annotations

import itertools

import lightworks as lw

from .. import kernel
from ..circuit_ops import Env, construct, full_fingerprint, rich_alphabet


def option_sets(nu):
    good = [str(i) * 2 for i in range(nu)]
    out = []
    for dt in ("svg", "mpl"):
        for loss, vals in ((False, False), (True, True), (True, False), (False, True)):
            for labels in (None, good):
                out.append((dt, loss, vals, labels, None))
    # labels need not be strings: numbers and arbitrary objects are shown through str()
    other = [(12345.5 if i % 2 else i) if i < 2 else ("m", i) for i in range(nu)]
    out.append(("svg", False, True, other, None))
    out.append(("mpl", True, False, other, None))
    # deviations: must raise DisplayError
    out.append(("svg", False, False, good + ["x"], lw.DisplayError))
    out.append(("mpl", False, False, good + ["x"], lw.DisplayError))
    if nu >= 1:
        out.append(("svg", True, False, good[:-1], lw.DisplayError))
        out.append(("mpl", False, True, good[:-1], lw.DisplayError))
    out.append(("png", False, False, None, lw.DisplayError))
    out.append(("", True, True, None, lw.DisplayError))
    return out


def check_circuit(n, prog, env, acc, mpl_every):
    import matplotlib.pyplot as plt
    c, params, applied = construct(n, prog, env)
    case0 = {"n": n, "prog": prog, "seed": env.seed}
    nu = c.n_modes - len(c._internal_modes)
    fp0 = full_fingerprint(c)
    pv0 = [(p.get(), p.min_bound, p.max_bound, p.label) for p in params]
    acc.state(fp0)
    for k, (dt, loss, vals, labels, expect) in enumerate(option_sets(nu)):
        if dt == "mpl" and expect is None and (k + kernel.fp8(prog)[0]) % mpl_every:
            continue
        case = {**case0, "display_type": dt, "display_loss": loss, "show_parameter_values": vals,
                "mode_labels": labels}
        acc.tick("executions"); acc.tick("transitions")
        labels = list(labels) if labels is not None else None      # a fresh caller-owned list per call
        labels0 = list(labels) if labels is not None else None
        try:
            r = lw.Display(c, display_loss=loss, mode_labels=labels, display_type=dt, show_parameter_values=vals)
            err = None
        except Exception as e:  # noqa: BLE001
            r, err = None, e
        finally:
            plt.close("all")
        if labels != labels0:
            acc.violation("display_changed_its_label_argument", case, {"before": labels0, "after": labels})
        if expect is None:
            if err is not None:
                acc.violation("display_raises", case, {"error": repr(err)})
            elif r is None:
                acc.violation("display_returns_nothing", case, None)
        else:
            if err is None:
                acc.violation("invalid_option_accepted", case, None)
            elif not isinstance(err, expect):
                acc.violation("invalid_option_wrong_error", case, {"error": repr(err)})
            else:
                acc.tick("rejected_calls")
        acc.outcome("%s:%s" % (dt, "ok" if err is None else type(err).__name__))
    if full_fingerprint(c) != fp0 or [(p.get(), p.min_bound, p.max_bound, p.label) for p in params] != pv0:
        acc.violation("display_changed_circuit", case0, None)
    if applied >= 2 and c._internal_modes:
        acc.nontriv(fp0)


def run(tier, seed):
    env = Env(seed)
    n = 4
    alpha = rich_alphabet(n, env)
    depth = 2 if tier == "quick" else 3
    mpl_every = 4 if tier == "quick" else 6
    alpha3 = alpha[::3] if tier == "thorough" else []

    def shard_fn(firsts):
        acc = kernel.Acc()
        for prog in kernel.programs(alpha, 2, first=firsts):
            check_circuit(n, prog, env, acc, mpl_every)
        if tier == "thorough":
            for f in firsts:
                for rest in itertools.product(alpha3, alpha):
                    check_circuit(n, (f,) + rest, env, acc, 12)
        if firsts:
            acc.sample({"n": n, "prog": [firsts[0], alpha[1]], "options": "svg/mpl x display_loss x show values x labels"},
                       limit=1)
        return acc

    acc = kernel.pmap(shard_fn, kernel.interleave(alpha, kernel.NPROC * 4))
    # a few other sizes incl. the empty circuit and single-mode circuits
    import math
    xjobs = []
    for nn in (1, 2, 6):
        a = [op for op in rich_alphabet(max(nn, 3), env) if op[0] in ("bs", "ps", "loss", "bar", "psP", "lossP", "sw", "her")]
        xjobs.append((nn, ()))
        xjobs += [(nn, (op,)) for op in a]
    # every branch of the phase label: multiples of pi/4 of either sign up to 13 pi/4, their neighbours, plain / Parameter
    phis = [k * math.pi / 4 for k in range(-13, 14)] + [math.pi + 1e-9, 2 * math.pi - 1e-7, 1e-12, env.PH[2], -env.PH[1], 100.0]
    for phi in phis:
        for op in (("ps", 0, phi, 0), ("psP", 1, False, phi), ("psP", 0, True, phi), ("ps", 1, phi, env.L2)):
            xjobs.append((2, (op,)))

    # phases that are numpy scalars other than float64 (elements of integer / float32 arrays), plain and as Parameter
    for dt, val in (("int64", 2), ("int32", -1), ("uint8", 3), ("float32", 0.5), ("float32", 0.78539816), ("int64", 0)):
        xjobs.append((2, (("psnp", 0, dt, val),)))
        xjobs.append((2, (("psnp", 1, dt, val, True), ("bs", 0, 1, env.R2, "Rx", 0))))

    # a block without any visible mode, and swaps that move nothing
    for nn in (2, 4):
        for m in range(0, nn + 1):
            for g in (False, True):
                xjobs.append((nn, (("add", "h2all", m, g),)))
                xjobs.append((nn, (("bs", 0, 1, env.R2, "Rx", 0), ("add", "h2all", m, g), ("ps", 0, env.PH[0], 0))))
        xjobs.append((nn, (("sw", ((0, 0), (1, 1))),)))
        xjobs.append((nn, (("bs", 0, 1, env.R2, "Rx", 0), ("sw", ((1, 1),)), ("sw", ((0, 1), (1, 0))))))

    # swap dictionaries written with their keys in any order (descending, unsorted), alone and between components
    for nn, sw in ((4, ((3, 1), (1, 3))), (3, ((2, 0), (1, 2), (0, 1))), (4, ((1, 3), (0, 1), (3, 0))), (2, ((1, 0), (0, 1))),
                   (4, ((2, 0), (0, 2))), (4, ((3, 0), (2, 1), (1, 2), (0, 3)))):
        xjobs.append((nn, (("sw", sw),)))
        xjobs.append((nn, (("bs", 0, 1, env.R2, "Rx", 0), ("sw", sw), ("ps", 0, env.PH[0], 0), ("sw", sw))))

    def xshard(js):
        a = kernel.Acc()
        for nn, prog in js:
            check_circuit(nn, prog, env, a, 1)
        return a

    extra = kernel.pmap(xshard, kernel.interleave(xjobs, kernel.NPROC))
    acc.merge(extra)
    meta = {
        "rule": "every program of length <= depth over the rich alphabet at n=4 (plus sizes 1, 2, 6 and the empty circuit; plus a "
                "phase shifter at every multiple of pi/4 in [-13pi/4, 13pi/4] and near-multiples, as number / Parameter / lossy) x "
                "{svg, mpl (every k-th option set)} x display_loss x show_parameter_values x mode_labels {None, right "
                "length} must return a drawing; 6 deviations (label list one too long / short for both back-ends, unknown "
                "display types) must raise DisplayError; full fingerprint of the circuit and the parameter values "
                "unchanged. distinct_nontrivial = distinct circuits with >= 2 components and an ancilla.",
        "exhaustive": True,
        "bounds": {"n": n, "alphabet": len(alpha), "depth": depth, "mpl_every": mpl_every},
        "assumptions": ["matplotlib Agg backend"],
    }
    return acc, meta


def replay(w, acc):
    from .c01 import _tup
    case = w["case"]
    check_circuit(case["n"], tuple(_tup(o) for o in case["prog"]), Env(case.get("seed", 0)), acc, 1)
