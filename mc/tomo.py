"""Shared harness pieces for the tomography properties (C15, C16): base-circuit
construction from qubit-gate programs, exact qubit states / outcome frequencies
via RefFock, literal qubit unitaries of gate programs."""
from __future__ import annotations

import itertools

import numpy as np

import lightworks as lw
from lightworks import qubit

from . import ref_fock, ref_qubit as rq


def one_qubit_alphabet(env):
    g = env.PH
    return [("H",), ("X",), ("Y",), ("Z",), ("S",), ("Sadj",), ("T",), ("SX",),
            ("Rx", g[0]), ("Ry", g[1]), ("Rz", g[2]), ("P", g[0] / 2)]


def gate_matrix_1q(g):
    return rq.single(g[0], g[1] if len(g) > 1 else None)


def build_base(n, prog):
    """prog: list of (gate tuple, first qubit). 1-qubit gates: gate tuple from the
    alphabet; multi-qubit: ("CNOT", target) / ("CZ",) / ("CNOT_Heralded", t) /
    ("CZ_Heralded",) / ("SWAP",) / ("CCZ",) / ("CCNOT", t)."""
    c = lw.Circuit(2 * n)
    wrappers = [g[0] for g, _ in prog if g[0] in WRAPPERS]
    for g, q in prog:
        name, args = g[0], g[1:]
        if name in WRAPPERS:
            continue
        if name == "ANC":
            # a single-qubit rotation realised by a heralded 3-mode block whose (vacuum) ancilla
            # ends up BETWEEN the two rails of the qubit
            sub = lw.Circuit(3); sub.bs(0, 2, reflectivity=args[0]); sub.herald(0, 1)
            c.add(sub, 2 * q)
        elif name == "ANC2":          # two ancillas (one carrying a photon) between the rails
            sub = lw.Circuit(4); sub.bs(0, 3, reflectivity=args[0], convention="H"); sub.bs(1, 2, reflectivity=0.5)
            sub.herald(0, 1); sub.herald(0, 2)
            c.add(sub, 2 * q)
        elif name == "SWAP":
            c.add(qubit.SWAP((2 * q, 2 * q + 1), (2 * q + 2, 2 * q + 3)), 0)
        else:
            c.add(getattr(qubit, name)(*args), 2 * q)
    for w in wrappers:
        # a herald placed DIRECTLY on the base circuit (not through an added sub-circuit), at or below qubit modes;
        # applied last whatever its position in the program, so that "program + basis change" stays well defined
        k = c.input_modes
        outer = lw.Circuit(k + 1)
        if w == "DH0":            # vacuum herald on the lowest mode
            outer.add(c, 1); outer.herald(0, 0)
        elif w == "DHph":         # a photon passing straight through on the lowest mode
            outer.add(c, 1); outer.herald(1, 0)
        elif w == "DHmid":        # vacuum herald entering on the top mode and leaving between the rails of qubit 0
            outer.add(c, 0)
            sw = {k: 1}
            sw.update({m: m + 1 for m in range(1, k)})
            outer.mode_swaps(sw); outer.herald(0, k, 1)
        elif w == "DHX":          # two crossing heralds with different photon numbers above the qubits, declared BEFORE
            outer = lw.Circuit(k + 2)       # the program (with its own heralded gates) is added
            outer.mode_swaps({k: k + 1, k + 1: k}); outer.herald(1, k, k + 1); outer.herald(0, k + 1, k)
            outer.add(c, 0)
        c = outer
    return c


WRAPPERS = ("DH0", "DHph", "DHmid", "DHX")


def program_unitary(n, prog):
    """Literal big-endian unitary of a gate program (reference semantics)."""
    U = np.eye(2 ** n, dtype=complex)
    for g, q in prog:
        name, args = g[0], g[1:]
        if name in ("CNOT", "CNOT_Heralded"):
            t = args[0] if args else 1
            m = rq.controlled_x(n, (q + 1 - t,), q + t)
        elif name in ("CZ", "CZ_Heralded"):
            m = rq.controlled_z(n, (q, q + 1))
        elif name == "SWAP":
            m = rq.swap(n, q, q + 1)
        elif name == "CCZ":
            m = rq.controlled_z(n, (q, q + 1, q + 2))
        elif name == "CCNOT":
            t = args[0] if args else 2
            m = rq.controlled_x(n, tuple(x + q for x in range(3) if x != t), q + t)
        elif name in WRAPPERS:
            continue
        elif name in ("ANC", "ANC2"):
            from .ref_circuit import bs_matrix
            m = rq.kron(*[bs_matrix(args[0], "Rx" if name == "ANC" else "H") if k == q else rq.I2 for k in range(n)])
        else:
            m = rq.kron(*[gate_matrix_1q(g) if k == q else rq.I2 for k in range(n)])
        U = m @ U
    return U


def amplitudes(circ, n, vin):
    """{bits: amplitude} over dual-rail outputs with heralds satisfied, for the visible input occupation vin."""
    U = circ.U_full
    h = circ.heralds
    n_loss = U.shape[0] - circ.n_modes
    fi = ref_fock.add_heralds(tuple(vin), h["input"]) + (0,) * n_loss
    out = {}
    for bits in itertools.product([0, 1], repeat=n):
        fo = ref_fock.add_heralds(rq.dual_rail(bits), h["output"]) + (0,) * n_loss
        out[bits] = ref_fock.amp(U, fi, fo)
    return out


def qubit_state(circ, n, vin):
    a = amplitudes(circ, n, vin)
    v = np.array([a[b] for b in itertools.product([0, 1], repeat=n)])
    nrm = np.linalg.norm(v)
    return v / nrm, nrm


def outcome_frequencies(circ, n, vin, scale=1.0):
    """Noise-free frequencies of the dual-rail outcomes (post-selected on one photon per qubit,
    heralds satisfied), as {State on the qubit modes: weight}. `scale` multiplies every weight: the
    tomography code normalises by the total, so any positive scale must give the same result."""
    a = amplitudes(circ, n, vin)
    tot = sum(abs(x) ** 2 for x in a.values())
    return {lw.State(list(rq.dual_rail(b))): scale * abs(x) ** 2 / tot for b, x in a.items()}


def qubit_unitary(circ, n):
    """(V, |s|^2): the n-qubit unitary a circuit implements on the dual-rail basis, scalar removed."""
    A, leak, _ = rq.circuit_gate_matrix(circ, n)
    s2 = float(np.real(np.trace(A.conj().T @ A)) / 2 ** n)
    return A / np.sqrt(s2), s2
