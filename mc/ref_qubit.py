"""Qubit-level references: literal gate matrices (big-endian, qubit 0 = first
rail pair = most significant index) and the dual-rail amplitude matrix of a
real photonic circuit computed with RefFock on its U_full."""
from __future__ import annotations

import itertools
import math

import numpy as np

from . import ref_fock

I2 = np.eye(2, dtype=complex)
X = np.array([[0, 1], [1, 0]], dtype=complex)
Y = np.array([[0, -1j], [1j, 0]])
Z = np.diag([1, -1]).astype(complex)
H = np.array([[1, 1], [1, -1]], dtype=complex) / math.sqrt(2)
P0 = np.diag([1, 0]).astype(complex)
P1 = np.diag([0, 1]).astype(complex)


def kron(*a):
    r = np.eye(1, dtype=complex)
    for x in a:
        r = np.kron(r, x)
    return r


def single(name, th=None):
    if name == "I": return I2
    if name == "H": return H
    if name == "X": return X
    if name == "Y": return Y
    if name == "Z": return Z
    if name == "S": return np.diag([1, 1j])
    if name == "Sadj": return np.diag([1, -1j])
    if name == "T": return np.diag([1, np.exp(1j * math.pi / 4)])
    if name == "Tadj": return np.diag([1, np.exp(-1j * math.pi / 4)])
    if name == "SX": return 0.5 * np.array([[1 + 1j, 1 - 1j], [1 - 1j, 1 + 1j]])
    c, s = math.cos(th / 2), math.sin(th / 2)
    if name == "Rx": return np.array([[c, -1j * s], [-1j * s, c]])
    if name == "Ry": return np.array([[c, -s], [s, c]], dtype=complex)
    if name == "Rz": return np.diag([np.exp(-1j * th / 2), np.exp(1j * th / 2)])
    if name == "P": return np.diag([1, np.exp(1j * th)])
    raise KeyError(name)


def controlled_x(n, controls, target):
    """X on `target` iff all `controls` are 1 (big-endian qubit indices)."""
    allc = kron(*[P1 if q in controls else I2 for q in range(n)])
    flip = kron(*[P1 if q in controls else (X if q == target else I2) for q in range(n)])
    return np.eye(2 ** n) - allc + flip


def controlled_z(n, qubits):
    return np.eye(2 ** n) - 2 * kron(*[P1 if q in qubits else I2 for q in range(n)])


def swap(n, a, b):
    m = np.zeros((2 ** n, 2 ** n))
    for bits in itertools.product([0, 1], repeat=n):
        out = list(bits)
        out[a], out[b] = out[b], out[a]
        m[int("".join(map(str, out)), 2), int("".join(map(str, bits)), 2)] = 1
    return m


def dual_rail(bits):
    s = []
    for b in bits:
        s += [1, 0] if b == 0 else [0, 1]
    return tuple(s)


def decode(vis):
    """visible occupation -> bit tuple, or None if not one photon per rail pair."""
    bits = []
    for q in range(len(vis) // 2):
        pr = tuple(vis[2 * q: 2 * q + 2])
        if pr == (1, 0): bits.append(0)
        elif pr == (0, 1): bits.append(1)
        else: return None
    return tuple(bits)


def circuit_gate_matrix(circ, n, accept=None):
    """(A, leak, n_outputs): A[row, col] = amplitude from basis input col to qubit output row (big-endian),
    over all outputs that satisfy the circuit's heralds and `accept(visible_tuple)`; leak = largest |amplitude|
    of an accepted output outside the qubit subspace."""
    U = circ.U_full
    h = circ.heralds
    hin, hout = h["input"], h["output"]
    n_loss = U.shape[0] - circ.n_modes
    nv = circ.n_modes - len(hin)
    assert nv == 2 * n, (nv, n)
    basis = list(itertools.product([0, 1], repeat=n))
    A = np.zeros((2 ** n, 2 ** n), dtype=complex)
    leak = 0.0
    leak_at = None
    outs = ref_fock.basis(nv, n)
    for ci, b in enumerate(basis):
        fi = ref_fock.add_heralds(dual_rail(b), hin) + (0,) * n_loss
        for o in outs:
            if accept is not None and not accept(o):
                continue
            fo = ref_fock.add_heralds(o, hout) + (0,) * n_loss
            a = ref_fock.amp(U, fi, fo)
            bits = decode(o)
            if bits is None:
                if abs(a) > leak:
                    leak, leak_at = abs(a), (b, o)
            else:
                A[basis.index(bits), ci] = a
    return A, leak, leak_at


def compare_up_to_scalar(A, G):
    """(|s|^2, max |A - s G|) with s fixed on the largest entry of G."""
    i = np.unravel_index(np.argmax(np.abs(G)), G.shape)
    s = A[i] / G[i]
    return abs(s) ** 2, float(np.abs(A - s * G).max())
