#!/bin/bash
# Offline setup: nothing to build (pure Python run with /venv/bin/python against /repo's working tree).
# Verifies the interpreter, the imports and the cross-validation of the reference models.
set -e
here="$(cd "$(dirname "$0")" && pwd)"
cd "$here"
mkdir -p evidence replays
export PYTHONPATH="${VERIF_REPO:-/repo}:$here" PYTHONDONTWRITEBYTECODE=1 MPLBACKEND=Agg
/venv/bin/python -c "import lightworks, numpy, scipy; print('lightworks from', lightworks.__file__)"
/venv/bin/python -m mc.selftest
